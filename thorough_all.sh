#!/bin/sh
# Runs the thorough tier of every claimed property, one after the other; prints one summary line per property.
cd "$(dirname "$0")"
./setup.sh >/dev/null 2>&1 || { echo "setup failed"; exit 2; }
rc=0
for p in ${PROPS:-C19 C16 C18 C15 C12 C01 C02 C11 C03 C13 C10 C08 C04 C05 C06 C07 C14 C17 C09}; do
  t0=$(date +%s)
  out=$(VERIF_SEED=${VERIF_SEED:-7} ./check $p --tier thorough --no-build 2>&1)
  r=$?
  echo "== $p exit=$r wall=$(( $(date +%s) - t0 ))s"
  echo "$out" | grep -E "^(OK|VIOLATION|KNOWN-FINDING|  class=|HARNESS|harness)" | cut -c1-1500
  [ $r -ne 0 ] && rc=$r
done
exit $rc
