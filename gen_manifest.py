#!/usr/bin/env python3
"""Regenerates MANIFEST.json from props_meta.json / plan.json (claimed = has a plan)."""
import json, subprocess
props = [json.loads(l) for l in open('/verif/properties.jsonl')]
meta = json.load(open('/verif/props_meta.json'))
plan = json.load(open('/verif/plan.json'))
na = json.load(open('/verif/not_applicable.json')) if __import__('os').path.exists('/verif/not_applicable.json') else {}
hooks = subprocess.run(['git', '-C', '/repo', 'log', '--format=%h %s'], capture_output=True, text=True).stdout.splitlines()
hook_commits = [l.split()[0] for l in hooks if l.split(' ', 1)[1].startswith('verif hook')]
checks, claimed = [], []
for p in props:
    pid = p['id']
    if pid in plan and pid in meta:
        m = meta[pid]
        claimed.append(pid)
        checks.append({
            "property_id": pid,
            "quick_cmd": "./check %s --tier quick" % pid,
            "thorough_cmd": "./check %s --tier thorough" % pid,
            "evidence_file": "/verif/evidence/%s.json" % pid,
            "replay_cmd_template": "./check %s --replay {path}" % pid,
            "engine": "paloma-dst",
            "level_claimed": {"category": m.get("level", "exploration"), "text": m["level_text"], "design_ref": m.get("design_ref", "DESIGN.md §4 " + pid)},
            "level_note": m["level_note"],
            "technique": m["technique"],
        })
manifest = {
    "version": 1,
    "setup_cmd": "./setup.sh",
    "hooks": {
        "guard": "verif (Go build tag)",
        "enable": "go build -tags verif of the harness module /verif/sim (replace github.com/palomachain/paloma/v2 => /repo); done by ./setup.sh and by every ./check invocation",
        "baseline_off_cmd": "cd /repo && GOFLAGS=-mod=mod go test -vet=off -count=1 -timeout 25m ./...",
        "source_commits": list(reversed(hook_commits)),
        "add_only": True,
    },
    "engines": [{"name": "paloma-dst", "path": "/verif/sim", "serves_properties": claimed,
                 "kind_free_text": "deterministic simulation with fault injection: the real app.App in one process, CometBFT / relayer / remote-EVM stubs, one choice tape per run, tape shrinking, fresh-process replay"}],
    "checks": checks,
    "notes": "Design, per-property oracles, findings and limits: /verif/DESIGN.md. Known findings: /verif/known_findings.json.",
    "not_applicable": [{"property_id": p['id'], "reason": na.get(p['id'], "check not built yet (work in progress; the design for it is in DESIGN.md §4)")}
                       for p in props if p['id'] not in claimed],
}
json.dump(manifest, open('/verif/MANIFEST.json', 'w'), indent=1)
print("claimed:", claimed)
