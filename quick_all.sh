#!/bin/sh
# Runs the quick tier of every claimed property on the current tree; one summary line per property.
cd "$(dirname "$0")"
./setup.sh >/dev/null 2>&1 || { echo "setup failed"; exit 2; }
rc=0
for p in ${PROPS:-C01 C02 C03 C04 C05 C06 C07 C08 C09 C10 C11 C12 C13 C14 C15 C16 C17 C18 C19}; do
  out=$(./check $p --no-build 2>&1); r=$?
  echo "$out" | grep -E "^(OK|VIOLATION|KNOWN-FINDING|  class=|HARNESS|harness)" | cut -c1-800
  [ $r -ne 0 ] && { echo "== $p exit=$r"; rc=$r; }
done
exit $rc
