#!/usr/bin/env python3
"""Determinism self-test of the simulator.

For every property scenario, the same run seeds are executed in several fresh
OS processes that differ in everything the simulator claims not to depend on:
GOMAXPROCS (1 / 4 / 16), how runs are grouped into processes (all runs in one
process, one process per run, reversed grouping), and machine load (all of it
runs concurrently on the 16 cores).  The SHA-256 digest of the full event
trace, the kind signature, the number of blocks and the violations must be
identical for every execution of a seed.

  ./selftest_determinism.py [--props C01,C02] [--runs 10] [--seed 1] [--tier quick]

Exit 0: all seeds reproduced exactly; exit 2: a divergence (harness trouble:
nothing any check reports may be believed until it is fixed).
"""
import argparse
import collections
import concurrent.futures
import json
import os
import subprocess
import sys
import time

ROOT = os.path.dirname(os.path.abspath(__file__))
BIN = os.path.join(ROOT, "sim", "bin", "simworker")


def run(prop, tier, seed, frm, n, procs, tag):
    env = dict(os.environ, GOMAXPROCS=str(procs))
    p = subprocess.run([BIN, "batch", "-prop", prop, "-tier", tier, "-seed", str(seed), "-from", str(frm), "-n", str(n)],
                       env=env, stdout=subprocess.PIPE, stderr=subprocess.PIPE, text=True, timeout=3600)
    out = []
    for line in p.stdout.splitlines():
        line = line.strip()
        if not line.startswith("{"):
            continue
        d = json.loads(line)
        out.append((d["run"], {
            "digest": d["digest"], "kind_sig": d["kind_sig"], "blocks": d["blocks"], "events": d["events"],
            "violations": sorted((v["class"], v.get("block")) for v in (d.get("violations") or [])),
            "harness": d.get("harness_error", ""), "tag": tag}))
    if p.returncode != 0:
        out.append((-1, {"harness": "exit %d: %s" % (p.returncode, p.stderr[-400:]), "tag": tag}))
    return prop, out


def main():
    ap = argparse.ArgumentParser()
    ap.add_argument("--props", default="")
    ap.add_argument("--runs", type=int, default=10)
    ap.add_argument("--seed", type=int, default=int(os.environ.get("VERIF_SEED", "1")))
    ap.add_argument("--tier", default="quick")
    ap.add_argument("--no-build", action="store_true")
    a = ap.parse_args()
    if not a.no_build:
        if subprocess.run([os.path.join(ROOT, "setup.sh")]).returncode != 0:
            sys.exit(2)
    plan = json.load(open(os.path.join(ROOT, "plan.json")))
    props = [p for p in a.props.split(",") if p] or sorted(plan)
    jobs = []
    for prop in props:
        n = a.runs
        jobs.append((prop, a.tier, a.seed, 0, n, 16, "one-process gomaxprocs=16"))
        half = n // 2
        jobs.append((prop, a.tier, a.seed, 0, half, 4, "first-half gomaxprocs=4"))
        jobs.append((prop, a.tier, a.seed, half, n - half, 4, "second-half gomaxprocs=4"))
        for i in range(n):
            jobs.append((prop, a.tier, a.seed, i, 1, 1, "alone gomaxprocs=1"))
    t0 = time.time()
    seen = collections.defaultdict(list)
    trouble = []
    with concurrent.futures.ThreadPoolExecutor(max_workers=16) as ex:
        for prop, out in ex.map(lambda j: run(*j), jobs):
            for runidx, rec in out:
                if rec.get("harness"):
                    trouble.append((prop, runidx, rec))
                seen[(prop, runidx)].append(rec)
    diverged = []
    execs = 0
    for (prop, runidx), recs in sorted(seen.items()):
        execs += len(recs)
        keys = {json.dumps({k: v for k, v in r.items() if k != "tag"}, sort_keys=True) for r in recs}
        if len(keys) != 1 or len(recs) < 3:
            diverged.append((prop, runidx, recs))
    summary = {
        "batch_seed": a.seed, "tier": a.tier, "properties": props, "seeds_per_property": a.runs,
        "executions": execs, "processes": len(jobs), "gomaxprocs": [1, 4, 16],
        "groupings": ["all runs in one process", "two halves", "one process per run"],
        "diverged": [{"property": p, "run": r, "records": recs} for p, r, recs in diverged],
        "harness_errors": [{"property": p, "run": r, "record": rec} for p, r, rec in trouble],
        "wall_s": round(time.time() - t0, 1),
    }
    os.makedirs(os.path.join(ROOT, "selftest"), exist_ok=True)
    with open(os.path.join(ROOT, "selftest", "determinism.json"), "w") as f:
        json.dump(summary, f, indent=1)
    if diverged or trouble:
        for p, r, recs in diverged[:10]:
            print("DIVERGED %s run %d:" % (p, r))
            for rec in recs:
                print("   ", rec)
        for p, r, rec in trouble[:10]:
            print("HARNESS %s run %s: %s" % (p, r, rec.get("harness", "")[:500]))
        print("determinism self-test FAILED: %d diverged, %d harness errors" % (len(diverged), len(trouble)))
        sys.exit(2)
    print("determinism self-test ok: %d seeds x 3 executions (%d processes, GOMAXPROCS 1/4/16, three groupings) reproduced exactly; wall %.0fs"
          % (len(seen), len(jobs), time.time() - t0))


if __name__ == "__main__":
    main()
