#!/bin/sh
# Builds the simulation worker from /repo's working tree (offline) with hooks on.
set -e
cd "$(dirname "$0")/sim"
export GOFLAGS=-mod=mod GOPROXY=off GOSUMDB=off GOTOOLCHAIN=local
cp /repo/go.sum go.sum
mkdir -p bin
go build -tags verif -o bin/simworker ./cmd/simworker
# the C08 other-process follower runs under the Go runtime's fake wall clock
go build -tags "verif faketime" -o bin/simworker-faketime ./cmd/simworker
echo "simworker built: $(./bin/simworker list | tr '\n' ' ')"
