package world

import (
	"fmt"
	"strings"

	"cosmossdk.io/log"
)

// LogRecord is one captured warn/error line of the application.
type LogRecord struct {
	Level string
	Msg   string
	KV    string
}

// CaptureLogger implements cosmossdk.io/log.Logger; it keeps warn/error lines
// (needed to see errors that end-blockers swallow) and counts the rest.
type CaptureLogger struct {
	sink *logSink
	with []any
}

type logSink struct {
	Records  []LogRecord
	Max      int
	Infos    int64
	KeepInfo bool
}

func NewCaptureLogger() *CaptureLogger {
	return &CaptureLogger{sink: &logSink{Max: 5000}}
}

func (l *CaptureLogger) Sink() *logSink { return l.sink }

func (l *CaptureLogger) rec(level, msg string, kv []any) {
	s := l.sink
	if len(s.Records) >= s.Max {
		// drop oldest half
		s.Records = append([]LogRecord(nil), s.Records[s.Max/2:]...)
	}
	var sb strings.Builder
	all := append(append([]any(nil), l.with...), kv...)
	for i := 0; i+1 < len(all); i += 2 {
		func() {
			defer func() {
				if r := recover(); r != nil {
					fmt.Fprintf(&sb, "%v=<unprintable> ", all[i])
				}
			}()
			fmt.Fprintf(&sb, "%v=%v ", all[i], all[i+1])
		}()
	}
	s.Records = append(s.Records, LogRecord{Level: level, Msg: msg, KV: sb.String()})
}

func (l *CaptureLogger) Info(msg string, kv ...any) {
	l.sink.Infos++
	if l.sink.KeepInfo {
		l.rec("info", msg, kv)
	}
}
func (l *CaptureLogger) Warn(msg string, kv ...any)  { l.rec("warn", msg, kv) }
func (l *CaptureLogger) Error(msg string, kv ...any) { l.rec("error", msg, kv) }
func (l *CaptureLogger) Debug(msg string, kv ...any) {}
func (l *CaptureLogger) With(kv ...any) log.Logger {
	return &CaptureLogger{sink: l.sink, with: append(append([]any(nil), l.with...), kv...)}
}
func (l *CaptureLogger) Impl() any { return l }

// Drain returns and clears captured records.
func (l *CaptureLogger) Drain() []LogRecord {
	r := l.sink.Records
	l.sink.Records = nil
	return r
}
