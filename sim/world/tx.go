package world

import (
	"fmt"

	abci "github.com/cometbft/cometbft/abci/types"
	"github.com/cosmos/cosmos-sdk/client"
	sdk "github.com/cosmos/cosmos-sdk/types"
	"github.com/cosmos/cosmos-sdk/types/tx/signing"
	authsigning "github.com/cosmos/cosmos-sdk/x/auth/signing"
)

const DefaultGas = 100_000_000

// BuildTx signs msgs with the given signer accounts (SIGN_MODE_DIRECT) using each
// account's current AccNum/Seq. It does not touch Seq.
func (n *Node) BuildTx(signers []*Account, feeGranter sdk.AccAddress, msgs ...sdk.Msg) ([]byte, error) {
	txCfg := n.App.TxConfig()
	b := txCfg.NewTxBuilder()
	if err := b.SetMsgs(msgs...); err != nil {
		return nil, err
	}
	b.SetGasLimit(DefaultGas)
	if feeGranter != nil {
		b.SetFeeGranter(feeGranter)
	}
	return signTx(txCfg, b, n.ChainID, signers)
}

func signTx(txCfg client.TxConfig, b client.TxBuilder, chainID string, signers []*Account) ([]byte, error) {
	mode := signing.SignMode_SIGN_MODE_DIRECT
	var sigs []signing.SignatureV2
	for _, s := range signers {
		sigs = append(sigs, signing.SignatureV2{
			PubKey:   s.Priv.PubKey(),
			Data:     &signing.SingleSignatureData{SignMode: mode},
			Sequence: s.Seq,
		})
	}
	if err := b.SetSignatures(sigs...); err != nil {
		return nil, err
	}
	sigs = sigs[:0]
	for _, s := range signers {
		sd := authsigning.SignerData{
			Address:       s.Addr.String(),
			ChainID:       chainID,
			AccountNumber: s.AccNum,
			Sequence:      s.Seq,
			PubKey:        s.Priv.PubKey(),
		}
		bytesToSign, err := authsigning.GetSignBytesAdapter(sdk.Context{}.Context(), txCfg.SignModeHandler(), mode, sd, b.GetTx())
		if err != nil {
			return nil, err
		}
		sig, err := s.Priv.Sign(bytesToSign)
		if err != nil {
			return nil, err
		}
		sigs = append(sigs, signing.SignatureV2{
			PubKey:   s.Priv.PubKey(),
			Data:     &signing.SingleSignatureData{SignMode: mode, Signature: sig},
			Sequence: s.Seq,
		})
	}
	if err := b.SetSignatures(sigs...); err != nil {
		return nil, err
	}
	return txCfg.TxEncoder()(b.GetTx())
}

// SyncAccount refreshes AccNum/Seq of acct from committed state.
func (n *Node) SyncAccount(acct *Account) bool {
	ctx := n.QueryCtx()
	a := n.App.AccountKeeper.GetAccount(ctx, acct.Addr)
	if a == nil {
		acct.Known = false
		return false
	}
	acct.AccNum = a.GetAccountNumber()
	acct.Seq = a.GetSequence()
	acct.Known = true
	return true
}

// SubmitResult is what a client learns when it submits a tx.
type SubmitResult struct {
	Tx    []byte
	Check *abci.ResponseCheckTx
	Err   error
}

func (r SubmitResult) Accepted() bool { return r.Err == nil && r.Check != nil && r.Check.Code == 0 }

// Submit builds a single-signer tx, sends it through CheckTx and bumps the
// client's sequence when it was admitted to the mempool.
func (n *Node) Submit(acct *Account, msgs ...sdk.Msg) SubmitResult {
	if !acct.Known {
		if !n.SyncAccount(acct) {
			return SubmitResult{Err: fmt.Errorf("account %s does not exist on chain", acct.Name)}
		}
	}
	tx, err := n.BuildTx([]*Account{acct}, nil, msgs...)
	if err != nil {
		return SubmitResult{Err: err}
	}
	res, err := n.CheckTx(tx)
	out := SubmitResult{Tx: tx, Check: res, Err: err}
	if out.Accepted() {
		acct.Seq++
	}
	return out
}

// TxResultIn looks up the execution result of tx in a block result.
func TxResultIn(br *BlockResult, tx []byte) *abci.ExecTxResult {
	for i, t := range br.Txs {
		if string(t) == string(tx) {
			if i < len(br.Results) {
				return br.Results[i]
			}
		}
	}
	return nil
}
