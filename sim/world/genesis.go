package world

import (
	"encoding/json"
	"time"

	"cosmossdk.io/math"
	"github.com/cosmos/cosmos-sdk/codec"
	codectypes "github.com/cosmos/cosmos-sdk/codec/types"
	cryptocodec "github.com/cosmos/cosmos-sdk/crypto/codec"
	"github.com/cosmos/cosmos-sdk/crypto/keys/ed25519"
	sdk "github.com/cosmos/cosmos-sdk/types"
	authtypes "github.com/cosmos/cosmos-sdk/x/auth/types"
	banktypes "github.com/cosmos/cosmos-sdk/x/bank/types"
	govv1 "github.com/cosmos/cosmos-sdk/x/gov/types/v1"
	slashingtypes "github.com/cosmos/cosmos-sdk/x/slashing/types"
	stakingtypes "github.com/cosmos/cosmos-sdk/x/staking/types"
	"github.com/palomachain/paloma/v2/app"
)

// ValidatorSpec describes one genesis validator.
type ValidatorSpec struct {
	Acct  *Account
	Cons  *ed25519.PrivKey
	Stake math.Int
}

// FundedAccount is a genesis account with a balance.
type FundedAccount struct {
	Acct  *Account
	Coins sdk.Coins
}

// GenesisSpec is everything the genesis builder needs.
type GenesisSpec struct {
	ChainID       string
	InitialHeight int64
	GenesisTime   time.Time
	Validators    []ValidatorSpec
	Accounts      []FundedAccount
	VotingPeriod  time.Duration
	// Mutate lets a scenario edit module genesis states (evm chains, treasury fees, ...).
	Mutate []func(cdc codec.Codec, gs map[string]json.RawMessage)
	// Slashing window overrides (0 = default)
	SignedBlocksWindow int64
}

// BuildGenesis produces the app state JSON. Validators are created the way
// gentxs create them: Unbonded with their stake in the not-bonded pool, so
// that staking's InitGenesis bonds them and fires every hook (distribution,
// slashing signing infos).
func BuildGenesis(a *app.App, spec *GenesisSpec) []byte {
	cdc := a.AppCodec()
	gs := a.DefaultGenesis()

	var accounts []authtypes.GenesisAccount
	var balances []banktypes.Balance
	accNum := uint64(0)
	addAcct := func(acct *Account, coins sdk.Coins) {
		ba := authtypes.NewBaseAccount(acct.Addr, nil, accNum, 0)
		acct.AccNum = accNum
		acct.Seq = 0
		acct.Known = true
		accNum++
		accounts = append(accounts, ba)
		if !coins.IsZero() {
			balances = append(balances, banktypes.Balance{Address: acct.Addr.String(), Coins: coins.Sort()})
		}
	}
	seen := map[string]bool{}
	for _, v := range spec.Validators {
		if seen[v.Acct.Addr.String()] {
			continue
		}
		seen[v.Acct.Addr.String()] = true
		// every validator operator gets pocket money for governance deposits etc.
		addAcct(v.Acct, sdk.NewCoins(sdk.NewCoin(app.BondDenom, math.NewInt(1_000_000_000_000))))
	}
	for _, fa := range spec.Accounts {
		if seen[fa.Acct.Addr.String()] {
			continue
		}
		seen[fa.Acct.Addr.String()] = true
		addAcct(fa.Acct, fa.Coins)
	}

	// staking
	var stakingGen stakingtypes.GenesisState
	cdc.MustUnmarshalJSON(gs[stakingtypes.ModuleName], &stakingGen)
	totalStake := math.ZeroInt()
	for _, v := range spec.Validators {
		pk, err := cryptocodec.FromCmtPubKeyInterface(cmtPub(v.Cons))
		if err != nil {
			panic(err)
		}
		pkAny, err := codectypes.NewAnyWithValue(pk)
		if err != nil {
			panic(err)
		}
		val := stakingtypes.Validator{
			OperatorAddress:   v.Acct.ValBech32(),
			ConsensusPubkey:   pkAny,
			Jailed:            false,
			Status:            stakingtypes.Unbonded,
			Tokens:            v.Stake,
			DelegatorShares:   math.LegacyNewDecFromInt(v.Stake),
			Description:       stakingtypes.Description{Moniker: v.Acct.Name},
			UnbondingHeight:   0,
			UnbondingTime:     time.Unix(0, 0).UTC(),
			Commission:        stakingtypes.NewCommission(math.LegacyZeroDec(), math.LegacyOneDec(), math.LegacyOneDec()),
			MinSelfDelegation: math.OneInt(),
		}
		stakingGen.Validators = append(stakingGen.Validators, val)
		stakingGen.Delegations = append(stakingGen.Delegations,
			stakingtypes.NewDelegation(v.Acct.Addr.String(), v.Acct.ValBech32(), math.LegacyNewDecFromInt(v.Stake)))
		totalStake = totalStake.Add(v.Stake)
	}
	gs[stakingtypes.ModuleName] = cdc.MustMarshalJSON(&stakingGen)
	balances = append(balances, banktypes.Balance{
		Address: authtypes.NewModuleAddress(stakingtypes.NotBondedPoolName).String(),
		Coins:   sdk.NewCoins(sdk.NewCoin(app.BondDenom, totalStake)),
	})

	// auth
	var authGen authtypes.GenesisState
	cdc.MustUnmarshalJSON(gs[authtypes.ModuleName], &authGen)
	packed, err := authtypes.PackAccounts(accounts)
	if err != nil {
		panic(err)
	}
	authGen.Accounts = packed
	gs[authtypes.ModuleName] = cdc.MustMarshalJSON(&authGen)

	// bank
	var bankGen banktypes.GenesisState
	cdc.MustUnmarshalJSON(gs[banktypes.ModuleName], &bankGen)
	bankGen.Balances = banktypes.SanitizeGenesisBalances(balances)
	bankGen.Supply = nil
	gs[banktypes.ModuleName] = cdc.MustMarshalJSON(&bankGen)

	// gov: short voting period
	var govGen govv1.GenesisState
	cdc.MustUnmarshalJSON(gs["gov"], &govGen)
	vp := spec.VotingPeriod
	if vp == 0 {
		vp = 20 * time.Second
	}
	govGen.Params.VotingPeriod = &vp
	evp := vp / 2
	govGen.Params.ExpeditedVotingPeriod = &evp
	mdp := vp * 4
	govGen.Params.MaxDepositPeriod = &mdp
	gs["gov"] = cdc.MustMarshalJSON(&govGen)

	if spec.SignedBlocksWindow > 0 {
		var sl slashingtypes.GenesisState
		cdc.MustUnmarshalJSON(gs[slashingtypes.ModuleName], &sl)
		sl.Params.SignedBlocksWindow = spec.SignedBlocksWindow
		gs[slashingtypes.ModuleName] = cdc.MustMarshalJSON(&sl)
	}

	for _, m := range spec.Mutate {
		m(cdc, gs)
	}

	bz, err := json.Marshal(gs)
	if err != nil {
		panic(err)
	}
	return bz
}
