// Package world wraps the real Paloma application (app.App) into a
// deterministic single-process node: genesis builder, CometBFT stub,
// crash/restart, transaction signing and the capturing logger.
package world

import (
	"crypto/ecdsa"
	"crypto/sha256"
	"encoding/binary"
	"fmt"

	"github.com/cosmos/cosmos-sdk/crypto/keys/ed25519"
	"github.com/cosmos/cosmos-sdk/crypto/keys/secp256k1"
	sdk "github.com/cosmos/cosmos-sdk/types"
	"github.com/ethereum/go-ethereum/common"
	ethcrypto "github.com/ethereum/go-ethereum/crypto"
)

// Account is a Paloma account controlled by a simulated actor.
type Account struct {
	Name string
	Priv *secp256k1.PrivKey
	Addr sdk.AccAddress
	// AccNum / Seq are the client's view; Seq is the next sequence to use.
	AccNum uint64
	Seq    uint64
	Known  bool // account number resolved from chain
}

func (a *Account) Bech32() string          { return a.Addr.String() }
func (a *Account) ValAddr() sdk.ValAddress { return sdk.ValAddress(a.Addr) }
func (a *Account) ValBech32() string       { return sdk.ValAddress(a.Addr).String() }

func keyMaterial(seed uint64, label string, ctr uint32) []byte {
	h := sha256.New()
	var b [12]byte
	binary.BigEndian.PutUint64(b[:8], seed)
	binary.BigEndian.PutUint32(b[8:], ctr)
	h.Write(b[:])
	h.Write([]byte(label))
	return h.Sum(nil)
}

// NewAccount derives a secp256k1 account from (seed,label). An optional
// predicate lets callers grind for address byte patterns (C12).
func NewAccount(seed uint64, label string, accept func(addr []byte) bool) *Account {
	for ctr := uint32(0); ; ctr++ {
		km := keyMaterial(seed, "acct:"+label, ctr)
		priv := &secp256k1.PrivKey{Key: km}
		addr := sdk.AccAddress(priv.PubKey().Address())
		if accept == nil || accept(addr) {
			return &Account{Name: label, Priv: priv, Addr: addr}
		}
		if ctr > 200000 {
			panic(fmt.Sprintf("cannot grind address for %s", label))
		}
	}
}

// ConsKey derives an ed25519 consensus key.
func ConsKey(seed uint64, label string) *ed25519.PrivKey {
	km := keyMaterial(seed, "cons:"+label, 0)
	return ed25519.GenPrivKeyFromSecret(km)
}

// EthKey is an external-chain (EVM) key.
type EthKey struct {
	Priv *ecdsa.PrivateKey
	Addr common.Address
}

func NewEthKey(seed uint64, label string) *EthKey {
	for ctr := uint32(0); ; ctr++ {
		km := keyMaterial(seed, "eth:"+label, ctr)
		priv, err := ethcrypto.ToECDSA(km)
		if err != nil {
			continue
		}
		return &EthKey{Priv: priv, Addr: ethcrypto.PubkeyToAddress(priv.PublicKey)}
	}
}

// SignEthMessage signs keccak("\x19Ethereum Signed Message:\n32" || hash32) the way pigeon does.
func (k *EthKey) SignEthMessage(hash32 []byte) []byte {
	digest := ethcrypto.Keccak256(append([]byte("\x19Ethereum Signed Message:\n32"), hash32...))
	sig, err := ethcrypto.Sign(digest, k.Priv)
	if err != nil {
		panic(err)
	}
	return sig
}
