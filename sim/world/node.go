package world

import (
	"crypto/sha256"
	"encoding/hex"
	"fmt"
	"os"
	"path/filepath"
	"runtime/debug"
	"sort"
	"strings"
	"time"

	abci "github.com/cometbft/cometbft/abci/types"
	cmtcrypto "github.com/cometbft/cometbft/crypto"
	cmted25519 "github.com/cometbft/cometbft/crypto/ed25519"
	cmtproto "github.com/cometbft/cometbft/proto/tendermint/types"
	dbm "github.com/cosmos/cosmos-db"
	"github.com/cosmos/cosmos-sdk/baseapp"
	"github.com/cosmos/cosmos-sdk/crypto/keys/ed25519"
	simtestutil "github.com/cosmos/cosmos-sdk/testutil/sims"
	sdk "github.com/cosmos/cosmos-sdk/types"
	"github.com/cosmos/cosmos-sdk/version"
	"github.com/palomachain/paloma/v2/app"
	chainparams "github.com/palomachain/paloma/v2/app/params"
)

func cmtPub(k *ed25519.PrivKey) cmtcrypto.PubKey {
	return cmted25519.PubKey(k.PubKey().Bytes())
}

var globalsDone bool

// SetupGlobals sets the process-wide configuration app.New needs.
func SetupGlobals() {
	if globalsDone {
		return
	}
	globalsDone = true
	chainparams.SetAddressConfig()
	version.Version = "v2.4.11"
}

var homeRoot string
var homeCtr int

// ScratchRoot is the directory under which per-app home dirs are created.
func ScratchRoot() string {
	if homeRoot == "" {
		base := os.Getenv("VERIF_SCRATCH")
		if base == "" {
			base = os.TempDir()
		}
		d, err := os.MkdirTemp(base, "palomasim-")
		if err != nil {
			panic(err)
		}
		homeRoot = d
	}
	return homeRoot
}

// CleanupScratch removes all per-app home dirs of this process.
func CleanupScratch() {
	if homeRoot != "" {
		os.RemoveAll(homeRoot)
	}
}

func freshHome() string {
	homeCtr++
	d := filepath.Join(ScratchRoot(), fmt.Sprintf("h%d", homeCtr))
	if err := os.MkdirAll(d, 0o755); err != nil {
		panic(err)
	}
	return d
}

// copyWasmState copies the stored contract code (not the lock file, not the compiled-module cache).
func copyWasmState(src, dst string) {
	_ = filepath.Walk(src, func(path string, info os.FileInfo, err error) error {
		if err != nil {
			return nil
		}
		rel, _ := filepath.Rel(src, path)
		if info.IsDir() {
			if info.Name() == "cache" {
				return filepath.SkipDir
			}
			return os.MkdirAll(filepath.Join(dst, rel), 0o755)
		}
		if strings.HasSuffix(info.Name(), ".lock") {
			return nil
		}
		bz, err := os.ReadFile(path)
		if err != nil {
			return nil
		}
		return os.WriteFile(filepath.Join(dst, rel), bz, 0o644)
	})
}

// CometVal is the stub's view of one consensus validator.
type CometVal struct {
	PubKey []byte // ed25519
	Addr   []byte
	Power  int64
}

// BlockRecord is a produced block, enough to replay it on a twin node.
type BlockRecord struct {
	Height      int64
	Time        time.Time
	Txs         [][]byte
	Votes       []abci.VoteInfo
	Proposer    []byte
	Misbehavior []abci.Misbehavior
}

// BlockResult is what the stub keeps of a FinalizeBlock.
type BlockResult struct {
	Height     int64
	Time       time.Time
	Txs        [][]byte
	Results    []*abci.ExecTxResult
	Events     []abci.Event
	AppHash    []byte
	Updates    []abci.ValidatorUpdate
	Panic      string // non-empty if FinalizeBlock panicked
	PanicStack string
	Err        error
	Digest     string
}

// Node is the real application plus the CometBFT stub state.
type Node struct {
	home    string // home directory of the current application object
	DB      dbm.DB
	App     *app.App
	Logger  *CaptureLogger
	ChainID string

	Height int64     // last committed height
	Time   time.Time // last block time

	// validator sets by the height at which they vote: valsets[h] signs block h
	curVals        map[string]*CometVal     // set that will sign the NEXT block
	pendingUpdates [][]abci.ValidatorUpdate // updates from block h take effect at h+2
	Down           map[string]bool          // cons addr hex -> node is down (vote absent)

	// comet-side mempool (raw txs in arrival order), mirrored for recheck
	Pending [][]byte

	Restarts    int
	LastAppHash []byte
	Blocks      []BlockRecord // recorded if Record is true
	Digests     []string
	TxCodes     [][]uint32
	AppHashes   []string
	Record      bool
	Opts        []func(*baseapp.BaseApp)

	// InitReq is the InitChain request this node was started with.
	InitReq *abci.RequestInitChain

	// cached query context of the last committed height (read-only use)
	qctx         sdk.Context
	qctxOK       bool
	qctxHeight   int64
	qctxRestarts int
}

// NewNode constructs the application on db (a fresh MemDB if nil).
func NewNode(db dbm.DB, chainID string) *Node {
	SetupGlobals()
	if db == nil {
		db = dbm.NewMemDB()
	}
	n := &Node{DB: db, ChainID: chainID, Down: map[string]bool{}, curVals: map[string]*CometVal{}}
	n.boot()
	return n
}

func (n *Node) boot() {
	n.Logger = NewCaptureLogger()
	// every application object gets its own home directory (the wasm VM keeps an exclusive lock on it until the process
	// exits); what is durable there - the stored contract code - is carried over from the node's previous home
	home := freshHome()
	if n.home != "" {
		copyWasmState(filepath.Join(n.home, "wasm"), filepath.Join(home, "wasm"))
	}
	n.home = home
	opts := simtestutil.NewAppOptionsWithFlagHome(home)
	bo := append([]func(*baseapp.BaseApp){baseapp.SetChainID(n.ChainID)}, n.Opts...)
	n.App = app.New(n.Logger, n.DB, nil, true, opts, bo...)
}

// Restart drops the application object (all in-memory state: mempool, caches,
// check state) and rebuilds it from the durable DB, like a process crash.
func (n *Node) Restart() {
	n.Restarts++
	n.Pending = nil
	n.boot()
	if got := n.App.LastBlockHeight(); got != n.Height {
		panic(fmt.Sprintf("restart: app height %d, stub height %d", got, n.Height))
	}
}

// InitChain runs InitChain with the given genesis.
func (n *Node) InitChain(spec *GenesisSpec) {
	appState := BuildGenesis(n.App, spec)
	var vals []abci.ValidatorUpdate
	// InitChain validators come from staking's InitGenesis result; pass none.
	// consensus params as CometBFT's default genesis has them (no block gas limit)
	cp := &cmtproto.ConsensusParams{
		Block:     &cmtproto.BlockParams{MaxBytes: 22020096, MaxGas: -1},
		Evidence:  simtestutil.DefaultConsensusParams.Evidence,
		Validator: simtestutil.DefaultConsensusParams.Validator,
	}
	ih := spec.InitialHeight
	if ih <= 0 {
		ih = 1
	}
	req := &abci.RequestInitChain{
		ChainId:         n.ChainID,
		Time:            spec.GenesisTime,
		ConsensusParams: cp,
		Validators:      vals,
		AppStateBytes:   appState,
		InitialHeight:   ih,
	}
	n.InitChainRaw(req)
}

// InitChainRaw runs InitChain with a prepared request (twin nodes replay the leader's request).
func (n *Node) InitChainRaw(req *abci.RequestInitChain) {
	res, err := n.App.InitChain(req)
	if err != nil {
		panic(fmt.Errorf("InitChain: %w", err))
	}
	n.InitReq = req
	ih := req.InitialHeight
	n.Height = ih - 1
	n.Time = req.Time
	for _, u := range res.Validators {
		n.applyUpdate(u)
	}
	n.pendingUpdates = nil
}

func (n *Node) applyUpdate(u abci.ValidatorUpdate) {
	pk := u.PubKey.GetEd25519()
	addr := cmted25519.PubKey(pk).Address()
	key := hex.EncodeToString(addr)
	if u.Power == 0 {
		delete(n.curVals, key)
		return
	}
	n.curVals[key] = &CometVal{PubKey: pk, Addr: addr, Power: u.Power}
}

// Validators returns the current comet validator set sorted by address.
func (n *Node) Validators() []*CometVal {
	keys := make([]string, 0, len(n.curVals))
	for k := range n.curVals {
		keys = append(keys, k)
	}
	sort.Strings(keys)
	out := make([]*CometVal, 0, len(keys))
	for _, k := range keys {
		out = append(out, n.curVals[k])
	}
	return out
}

// CheckTx submits a raw tx to the app mempool (like a peer / RPC would).
func (n *Node) CheckTx(tx []byte) (*abci.ResponseCheckTx, error) {
	res, err := n.App.CheckTx(&abci.RequestCheckTx{Tx: tx, Type: abci.CheckTxType_New})
	if err == nil && res.Code == 0 {
		n.Pending = append(n.Pending, tx)
	}
	return res, err
}

func (n *Node) votes() []abci.VoteInfo {
	var out []abci.VoteInfo
	for _, v := range n.Validators() {
		flag := cmtproto.BlockIDFlagCommit
		if n.Down[hex.EncodeToString(v.Addr)] {
			flag = cmtproto.BlockIDFlagAbsent
		}
		out = append(out, abci.VoteInfo{Validator: abci.Validator{Address: v.Addr, Power: v.Power}, BlockIdFlag: flag})
	}
	return out
}

// BlockOpts tunes one block.
type BlockOpts struct {
	Time time.Time
	// ProposerIdx selects the proposer among current validators.
	ProposerIdx int
	// CrashBeforeCommit: run FinalizeBlock, then crash instead of Commit; the
	// block is re-executed after restart (what CometBFT does on replay).
	CrashBeforeCommit bool
	// ExtraTxs are appended to the proposal directly (bypassing CheckTx), used
	// by twin replays.
	ForceTxs [][]byte
	UseForce bool
}

// ProduceBlock runs PrepareProposal -> ProcessProposal -> FinalizeBlock -> Commit.
func (n *Node) ProduceBlock(o BlockOpts) *BlockResult {
	h := n.Height + 1
	vals := n.Validators()
	var proposer []byte
	if len(vals) > 0 {
		proposer = vals[o.ProposerIdx%len(vals)].Addr
	}
	votes := n.votes()
	lastCommit := abci.CommitInfo{Round: 0, Votes: votes}
	var txs [][]byte
	if o.UseForce {
		txs = o.ForceTxs
	} else {
		pp, err := n.App.PrepareProposal(&abci.RequestPrepareProposal{
			MaxTxBytes:      4 << 20,
			Txs:             n.Pending,
			LocalLastCommit: abci.ExtendedCommitInfo{},
			Height:          h,
			Time:            o.Time,
			ProposerAddress: proposer,
		})
		if err != nil {
			return &BlockResult{Height: h, Err: fmt.Errorf("PrepareProposal: %w", err)}
		}
		txs = pp.Txs
		pr, err := n.App.ProcessProposal(&abci.RequestProcessProposal{
			Txs:                txs,
			ProposedLastCommit: lastCommit,
			Height:             h,
			Time:               o.Time,
			ProposerAddress:    proposer,
		})
		if err != nil {
			return &BlockResult{Height: h, Err: fmt.Errorf("ProcessProposal: %w", err)}
		}
		if pr.Status != abci.ResponseProcessProposal_ACCEPT {
			return &BlockResult{Height: h, Err: fmt.Errorf("ProcessProposal rejected own proposal")}
		}
	}
	rec := BlockRecord{Height: h, Time: o.Time, Txs: txs, Votes: votes, Proposer: proposer}
	res := n.finalize(rec)
	if res.Err != nil || res.Panic != "" {
		return res
	}
	if o.CrashBeforeCommit {
		// crash: nothing of this block is durable; restart and re-execute it
		n.Restart()
		res = n.finalize(rec)
		if res.Err != nil || res.Panic != "" {
			return res
		}
	}
	n.commit(rec, res)
	return res
}

// ReplayBlock executes a recorded block (twin execution).
func (n *Node) ReplayBlock(rec BlockRecord, crashBeforeCommit bool) *BlockResult {
	res := n.finalize(rec)
	if res.Err != nil || res.Panic != "" {
		return res
	}
	if crashBeforeCommit {
		n.Restart()
		res = n.finalize(rec)
		if res.Err != nil || res.Panic != "" {
			return res
		}
	}
	n.commit(rec, res)
	return res
}

func (n *Node) finalize(rec BlockRecord) (out *BlockResult) {
	out = &BlockResult{Height: rec.Height, Time: rec.Time, Txs: rec.Txs}
	defer func() {
		if r := recover(); r != nil {
			out.Panic = fmt.Sprint(r)
			out.PanicStack = string(debug.Stack())
		}
	}()
	res, err := n.App.FinalizeBlock(&abci.RequestFinalizeBlock{
		Txs:               rec.Txs,
		DecidedLastCommit: abci.CommitInfo{Votes: rec.Votes},
		Misbehavior:       rec.Misbehavior,
		Height:            rec.Height,
		Time:              rec.Time,
		ProposerAddress:   rec.Proposer,
		Hash:              blockHash(rec),
	})
	if err != nil {
		out.Err = fmt.Errorf("FinalizeBlock: %w", err)
		return out
	}
	out.Results = res.TxResults
	out.Events = res.Events
	out.AppHash = res.AppHash
	out.Updates = res.ValidatorUpdates
	out.Digest = digestResponse(res)
	return out
}

func (n *Node) commit(rec BlockRecord, res *BlockResult) {
	if _, err := n.App.Commit(); err != nil {
		panic(fmt.Errorf("Commit: %w", err))
	}
	n.Height = rec.Height
	n.Time = rec.Time
	n.LastAppHash = res.AppHash
	if n.Record {
		n.Blocks = append(n.Blocks, rec)
		n.Digests = append(n.Digests, res.Digest)
		var codes []uint32
		for _, r := range res.Results {
			codes = append(codes, r.Code)
		}
		n.TxCodes = append(n.TxCodes, codes)
		n.AppHashes = append(n.AppHashes, hex.EncodeToString(res.AppHash))
	}
	// validator updates of block h take effect for the set that signs h+2
	n.pendingUpdates = append(n.pendingUpdates, res.Updates)
	if len(n.pendingUpdates) > 1 {
		for _, u := range n.pendingUpdates[0] {
			n.applyUpdate(u)
		}
		n.pendingUpdates = n.pendingUpdates[1:]
	}
	// drop included txs from the comet-side pending list, recheck the rest
	if len(n.Pending) > 0 {
		inc := map[string]bool{}
		for _, tx := range rec.Txs {
			inc[string(tx)] = true
		}
		var rest [][]byte
		for _, tx := range n.Pending {
			if inc[string(tx)] {
				continue
			}
			r, err := n.App.CheckTx(&abci.RequestCheckTx{Tx: tx, Type: abci.CheckTxType_Recheck})
			if err == nil && r.Code == 0 {
				rest = append(rest, tx)
			}
		}
		n.Pending = rest
	}
}

func blockHash(rec BlockRecord) []byte {
	h := sha256.New()
	fmt.Fprintf(h, "%d|%d|", rec.Height, rec.Time.UnixNano())
	for _, tx := range rec.Txs {
		h.Write(tx)
	}
	return h.Sum(nil)
}

// digestResponse is SHA-256 over app hash and the full FinalizeBlock response
// (codes, data, gas, every event attribute, validator updates).
func digestResponse(res *abci.ResponseFinalizeBlock) string {
	h := sha256.New()
	h.Write(res.AppHash)
	writeEvents := func(evs []abci.Event) {
		for _, e := range evs {
			h.Write([]byte(e.Type))
			for _, a := range e.Attributes {
				h.Write([]byte{1})
				h.Write([]byte(a.Key))
				h.Write([]byte{2})
				h.Write([]byte(a.Value))
			}
			h.Write([]byte{3})
		}
	}
	writeEvents(res.Events)
	for _, r := range res.TxResults {
		fmt.Fprintf(h, "|%d|%s|%d|%d|%s|", r.Code, r.Codespace, r.GasWanted, r.GasUsed, r.Log)
		h.Write(r.Data)
		writeEvents(r.Events)
	}
	for _, u := range res.ValidatorUpdates {
		fmt.Fprintf(h, "|vu:%x:%d", u.PubKey.GetEd25519(), u.Power)
	}
	return hex.EncodeToString(h.Sum(nil))
}

// QueryCtx returns a context over the last committed state (cache-wrapped:
// writes are discarded).
func (n *Node) QueryCtx() sdk.Context {
	if n.qctxOK && n.qctxHeight == n.Height && n.qctxRestarts == n.Restarts {
		return n.qctx
	}
	ctx, err := n.App.CreateQueryContext(0, false)
	if err != nil {
		panic(fmt.Errorf("CreateQueryContext: %w", err))
	}
	n.qctx, n.qctxOK, n.qctxHeight, n.qctxRestarts = ctx, true, n.Height, n.Restarts
	return ctx
}

// PalomaFrames reports whether a panic stack has a frame of a Paloma module's
// BeginBlock/EndBlock (attribution for C09).
func PalomaBlockerFrame(stack string) string {
	for _, line := range strings.Split(stack, "\n") {
		if strings.Contains(line, "github.com/palomachain/paloma/v2/x/") &&
			(strings.Contains(line, ".EndBlock") || strings.Contains(line, ".BeginBlock") || strings.Contains(line, "EndBlocker") || strings.Contains(line, "BeginBlocker")) {
			return strings.TrimSpace(line)
		}
	}
	return ""
}
