package main

import (
	"fmt"
	"time"

	"cosmossdk.io/math"
	sdk "github.com/cosmos/cosmos-sdk/types"
	"github.com/palomachain/paloma/v2/app"
	valsettypes "github.com/palomachain/paloma/v2/x/valset/types"
	"verifsim/world"
)

func main() {
	defer world.CleanupScratch()
	t0 := time.Now()
	n := world.NewNode(nil, "sim-1")
	fmt.Println("new", time.Since(t0))
	var vals []world.ValidatorSpec
	for i := 0; i < 4; i++ {
		a := world.NewAccount(1, fmt.Sprintf("val%d", i), nil)
		vals = append(vals, world.ValidatorSpec{Acct: a, Cons: world.ConsKey(1, a.Name), Stake: math.NewInt(1_000_000_000 * int64(i+1))})
	}
	user := world.NewAccount(1, "user", nil)
	spec := &world.GenesisSpec{ChainID: "sim-1", GenesisTime: time.Unix(1_700_000_000, 0).UTC(), Validators: vals,
		Accounts: []world.FundedAccount{{Acct: user, Coins: sdk.NewCoins(sdk.NewCoin(app.BondDenom, math.NewInt(1000000)))}}}
	n.InitChain(spec)
	fmt.Println("init", time.Since(t0), len(n.Validators()))
	tm := spec.GenesisTime
	for i := 0; i < 120; i++ {
		tm = tm.Add(1600 * time.Millisecond)
		if i == 3 {
			msg := &valsettypes.MsgKeepAlive{PigeonVersion: "v2.0.0", Metadata: valsettypes.MsgMetadata{Creator: vals[0].Acct.Bech32(), Signers: []string{vals[0].Acct.Bech32()}}}
			r := n.Submit(vals[0].Acct, msg)
			fmt.Println("submit", r.Accepted(), r.Err, r.Check)
		}
		br := n.ProduceBlock(world.BlockOpts{Time: tm, ProposerIdx: i})
		if br.Err != nil || br.Panic != "" {
			fmt.Println("block fail", br.Err, br.Panic, br.PanicStack)
			return
		}
		if len(br.Txs) > 0 {
			fmt.Println("h", br.Height, "txs", len(br.Txs), br.Results[0].Code, br.Results[0].Log)
		}
		if i == 60 {
			n.Restart()
		}
	}
	fmt.Println("done", time.Since(t0), n.Height, fmt.Sprintf("%x", n.LastAppHash))
	for _, r := range n.Logger.Drain() {
		if r.Level == "error" {
			fmt.Println(r.Level, r.Msg, r.KV)
		}
	}
}
