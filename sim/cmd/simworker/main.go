// simworker executes simulated runs for one property. It is driven by /verif/check.
//
//	simworker batch  -prop C19 -tier quick -seed 1 -from 0 -n 8
//	simworker replay -prop C19 -tier quick -tape file.json
//	simworker shrink -prop C19 -tier quick -tape file.json -class X -budget 300
//
// Output: one JSON object per line on stdout. Exit 0 on normal completion
// (violations are data, not exit codes), exit 2 on harness trouble.
package main

import (
	"bufio"
	"encoding/json"
	"flag"
	"fmt"
	"os"
	"runtime/debug"
	"runtime/pprof"
	"time"

	palomamempool "github.com/palomachain/paloma/v2/app/mempool"
	"verifsim/core"
	"verifsim/props"
	"verifsim/world"
)

type RunOut struct {
	Prop       string            `json:"prop"`
	Tier       string            `json:"tier"`
	Run        uint64            `json:"run"`
	Seed       uint64            `json:"seed"`
	Violations []*core.Violation `json:"violations"`
	Notes      []core.Note       `json:"notes,omitempty"`
	Stats      *core.Stats       `json:"stats"`
	Blocks     int64             `json:"blocks"`
	SimSeconds int64             `json:"sim_seconds"`
	KindSig    string            `json:"kind_sig"`
	Digest     string            `json:"digest"`
	Events     int               `json:"events"`
	TapeLen    int               `json:"tape_len"`
	Tape       []uint64          `json:"tape,omitempty"`
	Sample     []string          `json:"sample,omitempty"`
	TraceTail  []string          `json:"trace_tail,omitempty"`
	Harness    string            `json:"harness_error,omitempty"`
	WallMs     int64             `json:"wall_ms"`
}

func execute(s props.Scenario, prop, tier string, runIdx, seed uint64, tape *core.Tape, keepTape bool) (out RunOut) {
	t0 := time.Now()
	// every source of randomness below us is derived from the run seed
	palomamempool.VerifResetSkiplistSeed(int64(seed))
	r := core.NewRun(prop, seed, tier, tape)
	out = RunOut{Prop: prop, Tier: tier, Run: runIdx, Seed: seed}
	func() {
		defer func() {
			if rec := recover(); rec != nil {
				if he, ok := rec.(core.HarnessError); ok {
					out.Harness = he.Error()
				} else {
					out.Harness = fmt.Sprintf("panic in harness: %v\n%s", rec, debug.Stack())
				}
			}
		}()
		out.Violations = s(r)
	}()
	if tape.Overrun {
		out.Harness = "tape overrun (runaway draw loop)"
	}
	out.Notes = r.Notes
	out.Stats = r.Stats
	out.Blocks = r.Blocks
	out.SimSeconds = r.SimSeconds
	out.KindSig = r.Trace.KindSig()
	out.Digest = r.Trace.Digest()
	out.Events = r.Trace.N
	out.TapeLen = len(tape.Used())
	out.Sample = r.Sample
	if len(out.Violations) > 0 || keepTape || out.Harness != "" {
		out.Tape = append([]uint64(nil), tape.Used()...)
		n := 60
		if v := os.Getenv("VERIF_TRACE_TAIL"); v != "" {
			fmt.Sscan(v, &n)
		}
		out.TraceTail = r.Trace.Tail(n)
	}
	out.WallMs = time.Since(t0).Milliseconds()
	return out
}

type tapeFile struct {
	Prop string   `json:"property"`
	Tier string   `json:"tier"`
	Seed uint64   `json:"seed"`
	Tape []uint64 `json:"tape"`
}

func readTape(path string) tapeFile {
	bz, err := os.ReadFile(path)
	if err != nil {
		fmt.Fprintln(os.Stderr, "read tape:", err)
		os.Exit(2)
	}
	var tf tapeFile
	if err := json.Unmarshal(bz, &tf); err != nil {
		fmt.Fprintln(os.Stderr, "parse tape:", err)
		os.Exit(2)
	}
	return tf
}

func main() {
	if len(os.Args) < 2 {
		fmt.Fprintln(os.Stderr, "usage: simworker batch|replay|shrink|list ...")
		os.Exit(2)
	}
	cmd := os.Args[1]
	fs := flag.NewFlagSet(cmd, flag.ExitOnError)
	prop := fs.String("prop", "", "property id")
	tier := fs.String("tier", "quick", "quick|thorough")
	seed := fs.Uint64("seed", 1, "batch seed (VERIF_SEED)")
	from := fs.Uint64("from", 0, "first run index")
	n := fs.Uint64("n", 1, "number of runs")
	tapePath := fs.String("tape", "", "tape file")
	class := fs.String("class", "", "violation class to preserve while shrinking")
	budget := fs.Int("budget", 300, "shrink budget (executions)")
	keep := fs.Bool("keep-tape", false, "always emit the tape")
	fs.Parse(os.Args[2:])

	debug.SetGCPercent(800) // runs are short-lived and allocation heavy; memory is plentiful
	defer world.CleanupScratch()
	if pf := os.Getenv("VERIF_CPUPROFILE"); pf != "" {
		f, err := os.Create(pf)
		if err == nil {
			pprof.StartCPUProfile(f)
			defer pprof.StopCPUProfile()
		}
	}
	w := bufio.NewWriter(os.Stdout)
	defer w.Flush()
	enc := json.NewEncoder(w)

	if cmd == "follow" {
		props.Init()
		props.FollowFile(*tapePath)
		return
	}
	if cmd == "list" {
		for _, id := range props.IDs() {
			fmt.Fprintln(w, id)
		}
		return
	}
	s, ok := props.Get(*prop)
	if !ok {
		fmt.Fprintln(os.Stderr, "unknown property", *prop)
		w.Flush()
		world.CleanupScratch()
		os.Exit(2)
	}
	props.Init()
	switch cmd {
	case "batch":
		for i := *from; i < *from+*n; i++ {
			rs := core.DeriveSeed(*seed, *prop+"/"+*tier, i)
			out := execute(s, *prop, *tier, i, rs, core.NewTape(rs), *keep)
			enc.Encode(out)
			w.Flush()
		}
	case "replay":
		tf := readTape(*tapePath)
		out := execute(s, *prop, *tier, 0, tf.Seed, core.ReplayTape(tf.Tape), true)
		enc.Encode(out)
	case "shrink":
		tf := readTape(*tapePath)
		execs := 0
		test := func(c []uint64) bool {
			execs++
			out := execute(s, *prop, *tier, 0, tf.Seed, core.ReplayTape(c), false)
			if out.Harness != "" {
				return false
			}
			for _, v := range out.Violations {
				if v.Property == *prop && v.Class == *class {
					return true
				}
			}
			return false
		}
		min, _ := core.Shrink(tf.Tape, test, *budget)
		out := execute(s, *prop, *tier, 0, tf.Seed, core.ReplayTape(min), true)
		out.Tape = min
		enc.Encode(map[string]any{"shrunk": out, "executions": execs, "orig_len": len(tf.Tape), "min_len": len(min)})
	default:
		fmt.Fprintln(os.Stderr, "unknown command", cmd)
		os.Exit(2)
	}
}
