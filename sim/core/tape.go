// Package core holds the simulator-independent machinery: the choice tape
// (single source of nondeterminism), the event trace with its running digest,
// statistics/probe counters, violations and the tape shrinker.
package core

import (
	"encoding/binary"
	"hash/fnv"
)

// SplitMix64 is the only PRNG in the simulator.
type SplitMix64 struct{ s uint64 }

func NewSplitMix64(seed uint64) *SplitMix64 { return &SplitMix64{s: seed} }

func (r *SplitMix64) Next() uint64 {
	r.s += 0x9e3779b97f4a7c15
	z := r.s
	z = (z ^ (z >> 30)) * 0xbf58476d1ce4e5b9
	z = (z ^ (z >> 27)) * 0x94d049bb133111eb
	return z ^ (z >> 31)
}

// DeriveSeed mixes the batch seed, a property id and a run index into a run seed.
func DeriveSeed(base uint64, prop string, run uint64) uint64 {
	h := fnv.New64a()
	h.Write([]byte(prop))
	var b [8]byte
	binary.BigEndian.PutUint64(b[:], run)
	h.Write(b[:])
	m := NewSplitMix64(base ^ h.Sum64())
	m.Next()
	return m.Next()
}

// Tape is the recorded sequence of choices of one run. In generation mode
// values come from the PRNG and are appended; in replay mode they are read
// back and an exhausted tape yields 0. By convention 0 is always the boring
// choice (no fault, honest behaviour, smallest size), which is what makes
// deleting / zeroing tape entries a meaningful simplification.
type Tape struct {
	Vals   []uint64
	pos    int
	rng    *SplitMix64
	replay bool
	// Limit caps the number of recorded draws (guards against runaway loops).
	Limit int
	// Overrun is set when more than Limit draws were requested.
	Overrun bool
}

func NewTape(seed uint64) *Tape { return &Tape{rng: NewSplitMix64(seed), Limit: 2_000_000} }

func ReplayTape(vals []uint64) *Tape {
	return &Tape{Vals: append([]uint64(nil), vals...), replay: true, Limit: 2_000_000}
}

// IsReplay reports whether the tape replays recorded values (replay / shrink) rather than drawing fresh ones.
func (t *Tape) IsReplay() bool { return t.replay }

// Used returns the prefix of the tape that was actually consumed.
func (t *Tape) Used() []uint64 {
	if t.pos > len(t.Vals) {
		return t.Vals
	}
	return t.Vals[:t.pos]
}

func (t *Tape) Pos() int { return t.pos }

// Draw returns a value in [0,n). n==0 or n==1 yields 0 without consuming.
func (t *Tape) Draw(n uint64) uint64 {
	if n <= 1 {
		return 0
	}
	if t.pos >= t.Limit {
		t.Overrun = true
		return 0
	}
	var v uint64
	if t.replay {
		if t.pos < len(t.Vals) {
			v = t.Vals[t.pos] % n
		}
		t.pos++
		return v
	}
	v = t.rng.Next() % n
	t.Vals = append(t.Vals, v)
	t.pos++
	return v
}

// Intn is Draw for ints.
func (t *Tape) Intn(n int) int {
	if n <= 0 {
		return 0
	}
	return int(t.Draw(uint64(n)))
}

// Chance is true with probability num/den; a zero tape value yields false.
func (t *Tape) Chance(num, den uint64) bool {
	if num == 0 || den == 0 {
		return false
	}
	if num >= den {
		return true
	}
	v := t.Draw(den)
	return v >= den-num
}

// Range returns a value in [lo,hi] (inclusive), lo for a zero tape value.
func (t *Tape) Range(lo, hi int) int {
	if hi <= lo {
		return lo
	}
	return lo + t.Intn(hi-lo+1)
}

// Pick returns an index in [0,n).
func (t *Tape) Pick(n int) int { return t.Intn(n) }

// Bytes fills n bytes from the tape (8 per draw).
func (t *Tape) Bytes(n int) []byte {
	out := make([]byte, 0, n+8)
	for len(out) < n {
		var b [8]byte
		binary.BigEndian.PutUint64(b[:], t.Draw(^uint64(0)))
		out = append(out, b[:]...)
	}
	return out[:n]
}

// Uint64 returns a full-range value biased towards interesting boundaries.
func (t *Tape) Uint64() uint64 {
	switch t.Draw(8) {
	case 0:
		return t.Draw(16)
	case 1:
		return t.Draw(1 << 20)
	case 2:
		return (1 << 63) - 2 + t.Draw(5)
	case 3:
		return ^uint64(0) - t.Draw(3)
	case 4:
		return (1 << 32) - 2 + t.Draw(5)
	case 5:
		return (1 << 53) - 2 + t.Draw(5)
	default:
		return t.Draw(^uint64(0))
	}
}
