package core

import (
	"crypto/sha256"
	"encoding/hex"
	"fmt"
	"hash"
	"sort"
)

// Trace is the recorded history of one run. Every line is folded into a
// running SHA-256, so two runs are identical iff their digests are.
// Logging never draws from the tape and never reads a real clock.
type Trace struct {
	h      hash.Hash
	kinds  hash.Hash
	Lines  []string
	Max    int
	N      int
	NKinds int
}

func NewTrace() *Trace { return &Trace{h: sha256.New(), kinds: sha256.New(), Max: 4000} }

// Event records one history line under a kind. The kind sequence has its own
// digest, used as the "distinct interleaving" measure.
func (t *Trace) Event(kind string, format string, args ...any) {
	line := kind
	if format != "" {
		line = kind + " " + fmt.Sprintf(format, args...)
	}
	t.h.Write([]byte(line))
	t.h.Write([]byte{'\n'})
	t.kinds.Write([]byte(kind))
	t.kinds.Write([]byte{0})
	t.N++
	t.NKinds++
	if len(t.Lines) < t.Max {
		t.Lines = append(t.Lines, line)
	}
}

func (t *Trace) Digest() string  { return hex.EncodeToString(t.h.Sum(nil)) }
func (t *Trace) KindSig() string { return hex.EncodeToString(t.kinds.Sum(nil))[:16] }

// Tail returns the last n lines.
func (t *Trace) Tail(n int) []string {
	if len(t.Lines) <= n {
		return t.Lines
	}
	return t.Lines[len(t.Lines)-n:]
}

// Stats counts faults that actually fired and probes that were hit.
type Stats struct {
	Faults map[string]int64 `json:"faults"`
	Probes map[string]int64 `json:"probes"`
}

func NewStats() *Stats { return &Stats{Faults: map[string]int64{}, Probes: map[string]int64{}} }

func (s *Stats) Fault(k string)           { s.Faults[k]++ }
func (s *Stats) Probe(k string)           { s.Probes[k]++ }
func (s *Stats) ProbeN(k string, n int64) { s.Probes[k] += n }

func (s *Stats) Merge(o *Stats) {
	if o == nil {
		return
	}
	for k, v := range o.Faults {
		s.Faults[k] += v
	}
	for k, v := range o.Probes {
		s.Probes[k] += v
	}
}

// SortedKeys returns the keys of a map in sorted order (the simulator never
// ranges over a map directly).
func SortedKeys[V any](m map[string]V) []string {
	ks := make([]string, 0, len(m))
	for k := range m {
		ks = append(ks, k)
	}
	sort.Strings(ks)
	return ks
}

// Violation is a property violation found by an oracle.
type Violation struct {
	Property string `json:"property"`
	// Class is the stable identifier of the kind of violation (used to decide
	// whether a shrunk tape still fails "the same way" and to match known findings).
	Class string `json:"class"`
	// Detail is the human explanation with the offending values.
	Detail string `json:"detail"`
	// Facts are discriminating key facts (matched by known-findings signatures).
	Facts map[string]string `json:"facts,omitempty"`
	Block int64             `json:"block"`
}

func (v *Violation) Error() string { return fmt.Sprintf("%s/%s: %s", v.Property, v.Class, v.Detail) }

// Note is something another property's oracle noticed; never a VIOLATION of the checked property.
type Note struct {
	Property string `json:"property"`
	Class    string `json:"class"`
	Detail   string `json:"detail"`
}

// Run is the context handed to a scenario.
type Run struct {
	Prop    string
	Seed    uint64
	Tier    string
	Profile string
	Tape    *Tape
	Trace   *Trace
	Stats   *Stats
	Notes   []Note
	// Blocks and SimSeconds are filled by the world.
	Blocks     int64
	SimSeconds int64
	// Sample is a short human readable description of what this run did.
	Sample []string
}

func NewRun(prop string, seed uint64, tier string, tape *Tape) *Run {
	return &Run{Prop: prop, Seed: seed, Tier: tier, Tape: tape, Trace: NewTrace(), Stats: NewStats()}
}

func (r *Run) Note(prop, class, format string, args ...any) {
	if len(r.Notes) < 50 {
		r.Notes = append(r.Notes, Note{prop, class, fmt.Sprintf(format, args...)})
	}
}

// HarnessError is raised (panic) for simulator bugs / impossible observations: exit 2, never VIOLATION.
type HarnessError struct{ Msg string }

func (h HarnessError) Error() string { return "harness: " + h.Msg }

func Harnessf(format string, args ...any) { panic(HarnessError{fmt.Sprintf(format, args...)}) }
