package core

// Shrink minimises a failing tape Hypothesis-style. test must return true when the
// candidate still fails with the same property and violation class. budget
// bounds the number of test executions.
func Shrink(tape []uint64, test func([]uint64) bool, budget int) ([]uint64, int) {
	cur := append([]uint64(nil), tape...)
	runs := 0
	try := func(c []uint64) bool {
		if runs >= budget {
			return false
		}
		runs++
		return test(c)
	}
	// strip trailing zeros (an exhausted tape yields zeros anyway)
	trim := func(c []uint64) []uint64 {
		for len(c) > 0 && c[len(c)-1] == 0 {
			c = c[:len(c)-1]
		}
		return c
	}
	cur = trim(cur)
	improved := true
	for improved && runs < budget {
		improved = false
		// pass 1: truncate
		for n := len(cur) / 2; n >= 1 && runs < budget; n /= 2 {
			for len(cur) > n {
				c := trim(append([]uint64(nil), cur[:len(cur)-n]...))
				if try(c) {
					cur = c
					improved = true
				} else {
					break
				}
			}
		}
		// pass 2: zero blocks
		for size := len(cur) / 2; size >= 1 && runs < budget; size /= 2 {
			for i := 0; i+size <= len(cur) && runs < budget; i += size {
				allZero := true
				for _, v := range cur[i : i+size] {
					if v != 0 {
						allZero = false
						break
					}
				}
				if allZero {
					continue
				}
				c := append([]uint64(nil), cur...)
				for j := i; j < i+size; j++ {
					c[j] = 0
				}
				c = trim(c)
				if try(c) {
					cur = c
					improved = true
				}
			}
		}
		// pass 3: delete blocks
		for size := len(cur) / 4; size >= 1 && runs < budget; size /= 2 {
			for i := 0; i+size <= len(cur) && runs < budget; {
				c := append(append([]uint64(nil), cur[:i]...), cur[i+size:]...)
				c = trim(c)
				if try(c) {
					cur = c
					improved = true
				} else {
					i += size
				}
			}
		}
		// pass 4: lower individual values
		for i := 0; i < len(cur) && runs < budget; i++ {
			if cur[i] == 0 {
				continue
			}
			for _, nv := range []uint64{0, 1, cur[i] / 2, cur[i] - 1} {
				if nv >= cur[i] {
					continue
				}
				c := append([]uint64(nil), cur...)
				c[i] = nv
				c = trim(c)
				if try(c) {
					cur = c
					improved = true
					break
				}
			}
			if i >= len(cur) {
				break
			}
		}
	}
	return cur, runs
}
