// Package evmsim is a small reference model of a remote EVM chain running the
// compass bridge contract: checkpoint / 2⁄3-of-2³² signature verification,
// message-id and batch-id single use, deadlines, event ids, a token ledger.
// Transactions and receipts are real go-ethereum objects signed by the
// relayer's key, because Paloma verifies RLP transactions and receipts.
//
// The digest schemes are re-implemented here from the contract ABI (they are
// NOT imported from Paloma), so a disagreement between what Paloma asks
// validators to sign and what the contract scheme hashes shows up as a
// rejected honest relay.
package evmsim

import (
	"bytes"
	_ "embed"
	"fmt"
	"math/big"
	"strings"

	"github.com/ethereum/go-ethereum/accounts/abi"
	"github.com/ethereum/go-ethereum/common"
	ethtypes "github.com/ethereum/go-ethereum/core/types"
	"github.com/ethereum/go-ethereum/crypto"
	"verifsim/world"
)

//go:embed compass-abi.json
var CompassABIJSON string

// CompassBytecode is the (opaque) init code Paloma is told to deploy.
var CompassBytecode = []byte{0x60, 0x80, 0x60, 0x40, 0x52, 0xc0, 0x4d, 0x9a, 0x55}

var CompassABI abi.ABI

func init() {
	a, err := abi.JSON(strings.NewReader(CompassABIJSON))
	if err != nil {
		panic(err)
	}
	CompassABI = a
}

const PowerThreshold = 2_863_311_530

// Event is a compass event as a relayer observes it.
type Event struct {
	Kind        string // SendToPaloma | BatchSend | NodeSale | ValsetUpdated | LogicCall | ...
	Compass     common.Address
	CompassID   [32]byte
	EventID     uint64
	SkywayNonce uint64 // the contract's gravity nonce (0 if the event has none)
	Block       uint64
	// SendToPaloma
	Token    common.Address
	Sender   common.Address
	Receiver [32]byte
	Amount   *big.Int
	// BatchSend
	BatchID uint64
	// NodeSale
	SaleContract common.Address
	Buyer        common.Address
	PalomaAddr   [32]byte
	NodeCount    *big.Int
	GrainAmount  *big.Int
	// LogicCall
	LogicContract common.Address
	Payload       []byte
	MessageID     uint64
	TxHash        common.Hash
}

type Valset struct {
	Validators []common.Address
	Powers     []*big.Int
	ID         *big.Int
}

type Compass struct {
	Addr           common.Address
	ID             [32]byte
	LastCheckpoint [32]byte
	LastValsetID   *big.Int
	LastEventID    uint64
	GravityNonce   uint64
	LastBatchID    map[common.Address]uint64
	MessageIDUsed  map[uint64]bool
	FeeManager     common.Address
	Deployer       common.Address
	// Executed records successful deliveries: message id -> call data
	Executed map[uint64][]byte
}

type TxRecord struct {
	Tx      *ethtypes.Transaction
	Receipt *ethtypes.Receipt
	Block   uint64
	From    common.Address
	// What the model did with it
	Method    string
	Reason    string // revert reason if failed
	Compass   common.Address
	MessageID uint64
}

// Chain is one simulated EVM chain.
type Chain struct {
	RefID     string
	ChainID   uint64
	Block     uint64
	Time      int64 // unix seconds; set by the simulator (may be skewed against Paloma time)
	Nonces    map[common.Address]uint64
	Compasses map[common.Address]*Compass
	Tokens    map[common.Address]map[common.Address]*big.Int // token -> holder -> balance
	Txs       map[common.Hash]*TxRecord
	TxOrder   []common.Hash
	Events    []Event
	Balances  map[common.Address]*big.Int
}

func NewChain(refID string, chainID uint64, startBlock uint64) *Chain {
	return &Chain{RefID: refID, ChainID: chainID, Block: startBlock, Nonces: map[common.Address]uint64{},
		Compasses: map[common.Address]*Compass{}, Tokens: map[common.Address]map[common.Address]*big.Int{},
		Txs: map[common.Hash]*TxRecord{}, Balances: map[common.Address]*big.Int{}}
}

// Mine advances the chain by one block.
func (c *Chain) Mine(now int64) {
	c.Block++
	c.Time = now
}

func (c *Chain) BlockHash(n uint64) common.Hash {
	return crypto.Keccak256Hash([]byte(fmt.Sprintf("%s/%d", c.RefID, n)))
}

func (c *Chain) signer() ethtypes.Signer {
	return ethtypes.NewLondonSigner(new(big.Int).SetUint64(c.ChainID))
}

func (c *Chain) mkTx(from *world.EthKey, to *common.Address, data []byte) *ethtypes.Transaction {
	nonce := c.Nonces[from.Addr]
	c.Nonces[from.Addr] = nonce + 1
	inner := &ethtypes.DynamicFeeTx{
		ChainID:   new(big.Int).SetUint64(c.ChainID),
		Nonce:     nonce,
		GasTipCap: big.NewInt(1),
		GasFeeCap: big.NewInt(100),
		Gas:       3_000_000,
		To:        to,
		Value:     big.NewInt(0),
		Data:      data,
	}
	tx, err := ethtypes.SignNewTx(from.Priv, c.signer(), inner)
	if err != nil {
		panic(err)
	}
	return tx
}

func (c *Chain) record(tx *ethtypes.Transaction, from common.Address, ok bool, method, reason string, compass common.Address, msgID uint64) *TxRecord {
	status := ethtypes.ReceiptStatusFailed
	if ok {
		status = ethtypes.ReceiptStatusSuccessful
	}
	rc := &ethtypes.Receipt{Type: tx.Type(), Status: status, CumulativeGasUsed: 100_000, Logs: []*ethtypes.Log{}}
	rec := &TxRecord{Tx: tx, Receipt: rc, Block: c.Block, From: from, Method: method, Reason: reason, Compass: compass, MessageID: msgID}
	c.Txs[tx.Hash()] = rec
	c.TxOrder = append(c.TxOrder, tx.Hash())
	return rec
}

// ---- digest schemes (independent re-implementation) ----

func mustType(t string, comps []abi.ArgumentMarshaling) abi.Type {
	ty, err := abi.NewType(t, "", comps)
	if err != nil {
		panic(err)
	}
	return ty
}

func methodID(name string, args abi.Arguments) []byte {
	m := abi.NewMethod(name, name, abi.Function, "", false, false, args, abi.Arguments{})
	return m.ID
}

// Checkpoint = keccak(methodID("checkpoint") ++ abi(validators, powers, valset_id, compass_id))
func Checkpoint(v Valset, compassID [32]byte) [32]byte {
	args := abi.Arguments{{Type: mustType("address[]", nil)}, {Type: mustType("uint256[]", nil)}, {Type: mustType("uint256", nil)}, {Type: mustType("bytes32", nil)}}
	bz, err := args.Pack(v.Validators, v.Powers, v.ID, compassID)
	if err != nil {
		panic(err)
	}
	var out [32]byte
	copy(out[:], crypto.Keccak256(append(methodID("checkpoint", args), bz...)))
	return out
}

func UpdateValsetDigest(newValset Valset, compassID [32]byte, relayer common.Address, gasEstimate *big.Int) []byte {
	cp := Checkpoint(newValset, compassID)
	args := abi.Arguments{{Type: mustType("bytes32", nil)}, {Type: mustType("address", nil)}, {Type: mustType("uint256", nil)}}
	bz, err := args.Pack(cp, relayer, gasEstimate)
	if err != nil {
		panic(err)
	}
	return crypto.Keccak256(append(methodID("update_valset", args), bz...))
}

type LogicCallArgs struct {
	LogicContractAddress common.Address
	Payload              []byte
}

type FeeArgs struct {
	RelayerFee            *big.Int
	CommunityFee          *big.Int
	SecurityFee           *big.Int
	FeePayerPalomaAddress [32]byte
}

var (
	tupleCall = mustType("tuple", []abi.ArgumentMarshaling{{Name: "address", Type: "address"}, {Name: "payload", Type: "bytes"}})
	tupleFee  = mustType("tuple", []abi.ArgumentMarshaling{{Name: "relayer_fee", Type: "uint256"}, {Name: "community_fee", Type: "uint256"}, {Name: "security_fee", Type: "uint256"}, {Name: "fee_payer_paloma_address", Type: "bytes32"}})
)

func LogicCallDigest(call LogicCallArgs, fee FeeArgs, messageID *big.Int, compassID [32]byte, deadline *big.Int, relayer common.Address) []byte {
	args := abi.Arguments{{Type: tupleCall}, {Type: tupleFee}, {Type: mustType("uint256", nil)}, {Type: mustType("bytes32", nil)}, {Type: mustType("uint256", nil)}, {Type: mustType("address", nil)}}
	bz, err := args.Pack(
		struct {
			Address common.Address
			Payload []byte
		}{call.LogicContractAddress, call.Payload},
		struct {
			RelayerFee            *big.Int
			CommunityFee          *big.Int
			SecurityFee           *big.Int
			FeePayerPalomaAddress [32]byte
		}{fee.RelayerFee, fee.CommunityFee, fee.SecurityFee, fee.FeePayerPalomaAddress},
		messageID, compassID, deadline, relayer)
	if err != nil {
		panic(err)
	}
	return crypto.Keccak256(append(methodID("logic_call", args), bz...))
}

func DeployContractDigest(deployer common.Address, bytecode []byte, fee FeeArgs, messageID *big.Int, compassID [32]byte, deadline *big.Int, relayer common.Address) []byte {
	args := abi.Arguments{{Type: mustType("address", nil)}, {Type: mustType("bytes", nil)}, {Type: tupleFee}, {Type: mustType("uint256", nil)}, {Type: mustType("bytes32", nil)}, {Type: mustType("uint256", nil)}, {Type: mustType("address", nil)}}
	bz, err := args.Pack(deployer, bytecode,
		struct {
			RelayerFee            *big.Int
			CommunityFee          *big.Int
			SecurityFee           *big.Int
			FeePayerPalomaAddress [32]byte
		}{fee.RelayerFee, fee.CommunityFee, fee.SecurityFee, fee.FeePayerPalomaAddress},
		messageID, compassID, deadline, relayer)
	if err != nil {
		panic(err)
	}
	return crypto.Keccak256(append(methodID("deploy_contract", args), bz...))
}

func CompassUpdateBatchDigest(calls []LogicCallArgs, deadline *big.Int, relayer common.Address, gasEstimate *big.Int) []byte {
	tupleArr := mustType("tuple[]", []abi.ArgumentMarshaling{{Name: "address", Type: "address"}, {Name: "payload", Type: "bytes"}})
	args := abi.Arguments{{Type: tupleArr}, {Type: mustType("uint256", nil)}, {Type: mustType("address", nil)}, {Type: mustType("uint256", nil)}}
	type lc struct {
		Address common.Address
		Payload []byte
	}
	arr := make([]lc, len(calls))
	for i, c := range calls {
		arr[i] = lc{c.LogicContractAddress, c.Payload}
	}
	bz, err := args.Pack(arr, deadline, relayer, gasEstimate)
	if err != nil {
		panic(err)
	}
	return crypto.Keccak256(append(methodID("compass_update_batch", args), bz...))
}

type TokenSendArgs struct {
	Receiver []common.Address
	Amount   []*big.Int
}

func BatchDigest(token common.Address, a TokenSendArgs, batchID *big.Int, compassID [32]byte, deadline *big.Int, relayer common.Address, gasEstimate *big.Int) []byte {
	tup := mustType("tuple", []abi.ArgumentMarshaling{{Name: "receiver", Type: "address[]"}, {Name: "amount", Type: "uint256[]"}})
	args := abi.Arguments{{Type: mustType("address", nil)}, {Type: tup}, {Type: mustType("uint256", nil)}, {Type: mustType("bytes32", nil)}, {Type: mustType("uint256", nil)}, {Type: mustType("address", nil)}, {Type: mustType("uint256", nil)}}
	bz, err := args.Pack(token, struct {
		Receiver []common.Address
		Amount   []*big.Int
	}{a.Receiver, a.Amount}, batchID, compassID, deadline, relayer, gasEstimate)
	if err != nil {
		panic(err)
	}
	return crypto.Keccak256(append(methodID("batch_call", args), bz...))
}

// ---- consensus check ----

type Signature struct {
	V *big.Int
	R *big.Int
	S *big.Int
}

type Consensus struct {
	Valset     Valset
	Signatures []Signature
}

func recoverSigner(hash32 []byte, sig Signature) (common.Address, bool) {
	digest := crypto.Keccak256(append([]byte("\x19Ethereum Signed Message:\n32"), hash32...))
	bz := make([]byte, 65)
	sig.R.FillBytes(bz[0:32])
	sig.S.FillBytes(bz[32:64])
	v := sig.V.Uint64()
	if v != 27 && v != 28 {
		return common.Address{}, false
	}
	bz[64] = byte(v - 27)
	pk, err := crypto.SigToPub(digest, bz)
	if err != nil {
		return common.Address{}, false
	}
	return crypto.PubkeyToAddress(*pk), true
}

func (cp *Compass) checkConsensus(con Consensus, hash32 []byte) string {
	if Checkpoint(con.Valset, cp.ID) != cp.LastCheckpoint {
		return "incorrect checkpoint"
	}
	if len(con.Signatures) > len(con.Valset.Validators) || len(con.Valset.Validators) != len(con.Valset.Powers) {
		return "malformed consensus"
	}
	cum := new(big.Int)
	thr := big.NewInt(PowerThreshold)
	for i, sig := range con.Signatures {
		if sig.V.Sign() == 0 {
			continue
		}
		who, ok := recoverSigner(hash32, sig)
		if !ok || who != con.Valset.Validators[i] {
			return fmt.Sprintf("invalid signature at %d", i)
		}
		cum.Add(cum, con.Valset.Powers[i])
		if cum.Cmp(thr) >= 0 {
			break
		}
	}
	if cum.Cmp(thr) < 0 {
		return "insufficient power"
	}
	return ""
}

// ---- transactions ----

type ctorArgs struct {
	CompassID    [32]byte
	EventID      *big.Int
	GravityNonce *big.Int
	Valset       Valset
	FeeManager   common.Address
}

// DeployCompass sends a contract-creation transaction with data = bytecode ++ constructor input.
func (c *Chain) DeployCompass(from *world.EthKey, data []byte) *TxRecord {
	tx := c.mkTx(from, nil, data)
	nonce := tx.Nonce()
	if !bytes.HasPrefix(data, CompassBytecode) {
		return c.record(tx, from.Addr, false, "deploy", "not the compass bytecode", common.Address{}, 0)
	}
	vals, err := CompassABI.Constructor.Inputs.Unpack(data[len(CompassBytecode):])
	if err != nil || len(vals) != 5 {
		return c.record(tx, from.Addr, false, "deploy", "constructor input does not decode", common.Address{}, 0)
	}
	addr := crypto.CreateAddress(from.Addr, nonce)
	cp := &Compass{Addr: addr, LastBatchID: map[common.Address]uint64{}, MessageIDUsed: map[uint64]bool{}, Executed: map[uint64][]byte{}, Deployer: from.Addr}
	cp.ID = vals[0].([32]byte)
	cp.LastEventID = vals[1].(*big.Int).Uint64()
	cp.GravityNonce = vals[2].(*big.Int).Uint64()
	vs := decodeValset(vals[3])
	cp.LastValsetID = vs.ID
	cp.LastCheckpoint = Checkpoint(vs, cp.ID)
	cp.FeeManager = vals[4].(common.Address)
	c.Compasses[addr] = cp
	return c.record(tx, from.Addr, true, "deploy", "", addr, 0)
}

func decodeValset(v any) Valset {
	// go-ethereum decodes tuples into anonymous structs; go through reflection-free re-pack
	type vsT = struct {
		Validators []common.Address `json:"validators"`
		Powers     []*big.Int       `json:"powers"`
		ValsetId   *big.Int         `json:"valset_id"`
	}
	out := abi.ConvertType(v, new(vsT)).(*vsT)
	return Valset{Validators: out.Validators, Powers: out.Powers, ID: out.ValsetId}
}

func decodeConsensus(v any) Consensus {
	type conT = struct {
		Valset struct {
			Validators []common.Address `json:"validators"`
			Powers     []*big.Int       `json:"powers"`
			ValsetId   *big.Int         `json:"valset_id"`
		} `json:"valset"`
		Signatures []struct {
			V *big.Int `json:"v"`
			R *big.Int `json:"r"`
			S *big.Int `json:"s"`
		} `json:"signatures"`
	}
	out := abi.ConvertType(v, new(conT)).(*conT)
	con := Consensus{Valset: Valset{out.Valset.Validators, out.Valset.Powers, out.Valset.ValsetId}}
	for _, s := range out.Signatures {
		con.Signatures = append(con.Signatures, Signature{s.V, s.R, s.S})
	}
	return con
}

func decodeFee(v any) FeeArgs {
	type feeT = struct {
		RelayerFee            *big.Int `json:"relayer_fee"`
		CommunityFee          *big.Int `json:"community_fee"`
		SecurityFee           *big.Int `json:"security_fee"`
		FeePayerPalomaAddress [32]byte `json:"fee_payer_paloma_address"`
	}
	out := abi.ConvertType(v, new(feeT)).(*feeT)
	return FeeArgs{out.RelayerFee, out.CommunityFee, out.SecurityFee, out.FeePayerPalomaAddress}
}

func decodeCall(v any) LogicCallArgs {
	type callT = struct {
		LogicContractAddress common.Address `json:"logic_contract_address"`
		Payload              []byte         `json:"payload"`
	}
	out := abi.ConvertType(v, new(callT)).(*callT)
	return LogicCallArgs{out.LogicContractAddress, out.Payload}
}

// Call sends a transaction to a compass contract and executes the model.
func (c *Chain) Call(from *world.EthKey, to common.Address, data []byte) *TxRecord {
	tx := c.mkTx(from, &to, data)
	cp, ok := c.Compasses[to]
	if !ok {
		return c.record(tx, from.Addr, false, "?", "no contract at address", to, 0)
	}
	if len(data) < 4 {
		return c.record(tx, from.Addr, false, "?", "short call data", to, 0)
	}
	m, err := CompassABI.MethodById(data[:4])
	if err != nil {
		return c.record(tx, from.Addr, false, "?", "unknown method", to, 0)
	}
	args, err := m.Inputs.Unpack(data[4:])
	if err != nil {
		return c.record(tx, from.Addr, false, m.Name, "arguments do not decode", to, 0)
	}
	// canonical encoding check: the contract sees exactly these arguments
	fail := func(reason string, msgID uint64) *TxRecord {
		return c.record(tx, from.Addr, false, m.Name, reason, to, msgID)
	}
	switch m.Name {
	case "update_valset":
		con := decodeConsensus(args[0])
		nv := decodeValset(args[1])
		relayer := args[2].(common.Address)
		gas := args[3].(*big.Int)
		if nv.ID.Cmp(cp.LastValsetID) <= 0 {
			return fail("invalid valset id", 0)
		}
		if relayer != from.Addr {
			return fail("relayer is not the sender", 0)
		}
		if r := cp.checkConsensus(con, UpdateValsetDigest(nv, cp.ID, relayer, gas)); r != "" {
			return fail(r, 0)
		}
		cum := new(big.Int)
		for _, p := range nv.Powers {
			cum.Add(cum, p)
		}
		if cum.Cmp(big.NewInt(PowerThreshold)) < 0 {
			return fail("new valset below threshold", 0)
		}
		cp.LastValsetID = nv.ID
		cp.LastCheckpoint = Checkpoint(nv, cp.ID)
		cp.LastEventID++
		c.Events = append(c.Events, Event{Kind: "ValsetUpdated", Compass: to, CompassID: cp.ID, EventID: cp.LastEventID, Block: c.Block, TxHash: tx.Hash()})
		return c.record(tx, from.Addr, true, m.Name, "", to, 0)
	case "submit_logic_call":
		con := decodeConsensus(args[0])
		call := decodeCall(args[1])
		fee := decodeFee(args[2])
		msgID := args[3].(*big.Int)
		deadline := args[4].(*big.Int)
		relayer := args[5].(common.Address)
		if relayer != from.Addr {
			return fail("relayer is not the sender", msgID.Uint64())
		}
		if big.NewInt(c.Time).Cmp(deadline) > 0 {
			return fail("timeout", msgID.Uint64())
		}
		if cp.MessageIDUsed[msgID.Uint64()] {
			return fail("used message id", msgID.Uint64())
		}
		if r := cp.checkConsensus(con, LogicCallDigest(call, fee, msgID, cp.ID, deadline, relayer)); r != "" {
			return fail(r, msgID.Uint64())
		}
		cp.MessageIDUsed[msgID.Uint64()] = true
		cp.Executed[msgID.Uint64()] = append([]byte(nil), data...)
		cp.LastEventID++
		c.Events = append(c.Events, Event{Kind: "LogicCall", Compass: to, CompassID: cp.ID, EventID: cp.LastEventID, Block: c.Block,
			LogicContract: call.LogicContractAddress, Payload: call.Payload, MessageID: msgID.Uint64(), TxHash: tx.Hash()})
		return c.record(tx, from.Addr, true, m.Name, "", to, msgID.Uint64())
	case "deploy_contract":
		con := decodeConsensus(args[0])
		deployer := args[1].(common.Address)
		bytecode := args[2].([]byte)
		fee := decodeFee(args[3])
		msgID := args[4].(*big.Int)
		deadline := args[5].(*big.Int)
		relayer := args[6].(common.Address)
		if relayer != from.Addr {
			return fail("relayer is not the sender", msgID.Uint64())
		}
		if big.NewInt(c.Time).Cmp(deadline) > 0 {
			return fail("timeout", msgID.Uint64())
		}
		if cp.MessageIDUsed[msgID.Uint64()] {
			return fail("used message id", msgID.Uint64())
		}
		if r := cp.checkConsensus(con, DeployContractDigest(deployer, bytecode, fee, msgID, cp.ID, deadline, relayer)); r != "" {
			return fail(r, msgID.Uint64())
		}
		cp.MessageIDUsed[msgID.Uint64()] = true
		cp.Executed[msgID.Uint64()] = append([]byte(nil), data...)
		cp.LastEventID++
		c.Events = append(c.Events, Event{Kind: "ContractDeployed", Compass: to, CompassID: cp.ID, EventID: cp.LastEventID, Block: c.Block, MessageID: msgID.Uint64(), TxHash: tx.Hash()})
		return c.record(tx, from.Addr, true, m.Name, "", to, msgID.Uint64())
	case "compass_update_batch":
		con := decodeConsensus(args[0])
		type arrT = []struct {
			LogicContractAddress common.Address `json:"logic_contract_address"`
			Payload              []byte         `json:"payload"`
		}
		arr := *abi.ConvertType(args[1], new(arrT)).(*arrT)
		var calls []LogicCallArgs
		for _, a := range arr {
			calls = append(calls, LogicCallArgs{a.LogicContractAddress, a.Payload})
		}
		deadline := args[2].(*big.Int)
		gas := args[3].(*big.Int)
		relayer := args[4].(common.Address)
		if relayer != from.Addr {
			return fail("relayer is not the sender", 0)
		}
		if big.NewInt(c.Time).Cmp(deadline) > 0 {
			return fail("timeout", 0)
		}
		if r := cp.checkConsensus(con, CompassUpdateBatchDigest(calls, deadline, relayer, gas)); r != "" {
			return fail(r, 0)
		}
		cp.LastEventID++
		c.Events = append(c.Events, Event{Kind: "UpdateCompass", Compass: to, CompassID: cp.ID, EventID: cp.LastEventID, Block: c.Block, TxHash: tx.Hash()})
		return c.record(tx, from.Addr, true, m.Name, "", to, 0)
	case "submit_batch":
		con := decodeConsensus(args[0])
		token := args[1].(common.Address)
		type tsT = struct {
			Receiver []common.Address `json:"receiver"`
			Amount   []*big.Int       `json:"amount"`
		}
		ts := abi.ConvertType(args[2], new(tsT)).(*tsT)
		batchID := args[3].(*big.Int)
		deadline := args[4].(*big.Int)
		relayer := args[5].(common.Address)
		gas := args[6].(*big.Int)
		if relayer != from.Addr {
			return fail("relayer is not the sender", 0)
		}
		if cp.LastBatchID[token] >= batchID.Uint64() {
			return fail("wrong batch id", 0)
		}
		if big.NewInt(c.Time).Cmp(deadline) > 0 {
			return fail("timeout", 0)
		}
		if len(ts.Receiver) != len(ts.Amount) {
			return fail("malformed batch", 0)
		}
		if r := cp.checkConsensus(con, BatchDigest(token, TokenSendArgs{ts.Receiver, ts.Amount}, batchID, cp.ID, deadline, relayer, gas)); r != "" {
			return fail(r, 0)
		}
		// token transfers out of the bridge
		total := new(big.Int)
		for _, a := range ts.Amount {
			total.Add(total, a)
		}
		led := c.ledger(token)
		if bal := led[to]; bal == nil || bal.Cmp(total) < 0 {
			// paloma-native (mintable) tokens: compass mints; model as unlimited bridge balance
			led[to] = new(big.Int).Set(total)
		}
		for i, rcv := range ts.Receiver {
			led[to].Sub(led[to], ts.Amount[i])
			if led[rcv] == nil {
				led[rcv] = new(big.Int)
			}
			led[rcv].Add(led[rcv], ts.Amount[i])
		}
		cp.LastBatchID[token] = batchID.Uint64()
		cp.GravityNonce++
		cp.LastEventID++
		c.Events = append(c.Events, Event{Kind: "BatchSend", Compass: to, CompassID: cp.ID, EventID: cp.LastEventID, SkywayNonce: cp.GravityNonce,
			Block: c.Block, Token: token, BatchID: batchID.Uint64(), TxHash: tx.Hash()})
		return c.record(tx, from.Addr, true, m.Name, "", to, 0)
	case "send_token_to_paloma":
		token := args[0].(common.Address)
		receiver := args[1].([32]byte)
		amount := args[2].(*big.Int)
		led := c.ledger(token)
		if amount.Sign() <= 0 {
			return fail("zero amount", 0)
		}
		if led[from.Addr] == nil || led[from.Addr].Cmp(amount) < 0 {
			return fail("insufficient token balance", 0)
		}
		led[from.Addr].Sub(led[from.Addr], amount)
		if led[to] == nil {
			led[to] = new(big.Int)
		}
		led[to].Add(led[to], amount)
		cp.GravityNonce++
		cp.LastEventID++
		c.Events = append(c.Events, Event{Kind: "SendToPaloma", Compass: to, CompassID: cp.ID, EventID: cp.LastEventID, SkywayNonce: cp.GravityNonce,
			Block: c.Block, Token: token, Sender: from.Addr, Receiver: receiver, Amount: new(big.Int).Set(amount), TxHash: tx.Hash()})
		return c.record(tx, from.Addr, true, m.Name, "", to, 0)
	case "emit_nodesale_event":
		buyer := args[0].(common.Address)
		pal := args[1].([32]byte)
		cnt := args[2].(*big.Int)
		grain := args[3].(*big.Int)
		cp.GravityNonce++
		cp.LastEventID++
		c.Events = append(c.Events, Event{Kind: "NodeSale", Compass: to, CompassID: cp.ID, EventID: cp.LastEventID, SkywayNonce: cp.GravityNonce,
			Block: c.Block, SaleContract: from.Addr, Buyer: buyer, PalomaAddr: pal, NodeCount: cnt, GrainAmount: new(big.Int).Set(grain), TxHash: tx.Hash()})
		return c.record(tx, from.Addr, true, m.Name, "", to, 0)
	}
	return fail("method not modelled", 0)
}

// OtherTx creates an unrelated successful transaction (used by liars).
// DeployOther sends a contract-creation transaction with arbitrary init code that succeeds (some contract, not a
// compass the model knows): what a lying relayer can always produce.
func (c *Chain) DeployOther(from *world.EthKey, data []byte) *TxRecord {
	tx := c.mkTx(from, nil, data)
	return c.record(tx, from.Addr, true, "deploy-other", "", crypto.CreateAddress(from.Addr, tx.Nonce()), 0)
}

func (c *Chain) OtherTx(from *world.EthKey, to common.Address, data []byte) *TxRecord {
	tx := c.mkTx(from, &to, data)
	return c.record(tx, from.Addr, true, "other", "", to, 0)
}

func (c *Chain) ledger(token common.Address) map[common.Address]*big.Int {
	l, ok := c.Tokens[token]
	if !ok {
		l = map[common.Address]*big.Int{}
		c.Tokens[token] = l
	}
	return l
}

// MintToken credits tokens to a holder (test faucet).
func (c *Chain) MintToken(token, holder common.Address, amount *big.Int) {
	l := c.ledger(token)
	if l[holder] == nil {
		l[holder] = new(big.Int)
	}
	l[holder].Add(l[holder], amount)
}

// EventsAfter returns skyway-relevant events of one compass deployment with gravity nonce > n, in order.
func (c *Chain) SkywayEventsAfter(compass common.Address, n uint64) []Event {
	var out []Event
	for _, e := range c.Events {
		if e.Compass == compass && e.SkywayNonce > n {
			out = append(out, e)
		}
	}
	return out
}
