#!/usr/bin/env python3
"""Hand-assembles echo.wasm, a minimal CosmWasm (interface version 8) contract:

  instantiate(..)      -> {"ok":{"messages":[],"attributes":[],"events":[],"data":null}}
  execute(.., msg)     -> {"ok": <msg bytes verbatim> }

i.e. whoever executes the contract supplies the complete Response JSON, including
sub-messages of any kind (bank, wasm, custom ...) which the chain then dispatches
with the *contract* as sender.  No toolchain for wasm is installed in the sandbox,
hence the tiny assembler below.  Run: python3 gen.py  (writes echo.wasm next to it).
"""
import os
import struct


def uleb(n):
    out = bytearray()
    while True:
        b = n & 0x7F
        n >>= 7
        if n:
            out.append(b | 0x80)
        else:
            out.append(b)
            return bytes(out)


def sleb(n):
    out = bytearray()
    while True:
        b = n & 0x7F
        n >>= 7
        if (n == 0 and not b & 0x40) or (n == -1 and b & 0x40):
            out.append(b)
            return bytes(out)
        out.append(b | 0x80)


def vec(items):
    return uleb(len(items)) + b"".join(items)


def section(sid, payload):
    return bytes([sid]) + uleb(len(payload)) + payload


def name(s):
    b = s.encode()
    return uleb(len(b)) + b


I32 = 0x7F


def functype(params, results):
    return b"\x60" + vec([bytes([p]) for p in params]) + vec([bytes([r]) for r in results])


# --- tiny instruction helpers
def lget(i): return b"\x20" + uleb(i)
def lset(i): return b"\x21" + uleb(i)
def gget(i): return b"\x23" + uleb(i)
def gset(i): return b"\x24" + uleb(i)
def const(n): return b"\x41" + sleb(n)
def load(off): return b"\x28\x02" + uleb(off)
def store(off): return b"\x36\x02" + uleb(off)
def load8(off): return b"\x2d\x00" + uleb(off)
def store8(off): return b"\x3a\x00" + uleb(off)
def call(i): return b"\x10" + uleb(i)
ADD, AND, GE_U = b"\x6a", b"\x71", b"\x4f"
BLOCK, LOOP, END = b"\x02\x40", b"\x03\x40", b"\x0b"
def br(i): return b"\x0c" + uleb(i)
def br_if(i): return b"\x0d" + uleb(i)


def body(nlocals, code):
    locs = vec([uleb(nlocals) + bytes([I32])]) if nlocals else vec([])
    b = locs + code + END
    return uleb(len(b)) + b


PREFIX_AT, SUFFIX_AT, REGION_AT, JSON_AT = 16, 24, 32, 64
INST = b'{"ok":{"messages":[],"attributes":[],"events":[],"data":null}}'

F_ALLOC, F_DEALLOC, F_INST, F_EXEC, F_IFACE, F_COPY = range(6)

allocate = body(1, b"".join([
    gget(0), lset(1),
    lget(1), lget(1), const(12), ADD, store(0),
    lget(1), lget(0), store(4),
    lget(1), const(0), store(8),
    lget(1), const(12), ADD, lget(0), ADD, const(7), ADD, const(-8), AND, gset(0),
    lget(1),
]))
deallocate = body(0, b"")
instantiate = body(0, const(REGION_AT))
execute = body(4, b"".join([
    lget(2), load(0), lset(3),
    lget(2), load(8), lset(4),
    lget(4), const(7), ADD, call(F_ALLOC), lset(5),
    lget(5), load(0), lset(6),
    lget(6), const(PREFIX_AT), const(6), call(F_COPY),
    lget(6), const(6), ADD, lget(3), lget(4), call(F_COPY),
    lget(6), const(6), ADD, lget(4), ADD, const(125), store8(0),
    lget(5), lget(4), const(7), ADD, store(8),
    lget(5),
]))
iface = body(0, b"")
copy = body(1, b"".join([
    BLOCK, LOOP,
    lget(3), lget(2), GE_U, br_if(1),
    lget(0), lget(3), ADD, lget(1), lget(3), ADD, load8(0), store8(0),
    lget(3), const(1), ADD, lset(3),
    br(0),
    END, END,
]))

types = vec([
    functype([I32], [I32]),            # 0 allocate
    functype([I32], []),               # 1 deallocate
    functype([I32, I32, I32], [I32]),  # 2 instantiate / execute
    functype([], []),                  # 3 interface_version_8
    functype([I32, I32, I32], []),     # 4 copy
])
funcs = vec([uleb(0), uleb(1), uleb(2), uleb(2), uleb(3), uleb(4)])
memory = vec([b"\x00" + uleb(32)])  # 32 pages, no maximum
globals_ = vec([bytes([I32, 1]) + const(4096) + END])
exports = vec([
    name("memory") + b"\x02" + uleb(0),
    name("allocate") + b"\x00" + uleb(F_ALLOC),
    name("deallocate") + b"\x00" + uleb(F_DEALLOC),
    name("instantiate") + b"\x00" + uleb(F_INST),
    name("execute") + b"\x00" + uleb(F_EXEC),
    name("interface_version_8") + b"\x00" + uleb(F_IFACE),
])
code = vec([allocate, deallocate, instantiate, execute, iface, copy])


def data(at, bz):
    return b"\x00" + const(at) + END + uleb(len(bz)) + bz


datas = vec([
    data(PREFIX_AT, b'{"ok":'),
    data(SUFFIX_AT, b"}"),
    data(REGION_AT, struct.pack("<III", JSON_AT, len(INST), len(INST))),
    data(JSON_AT, INST),
])

module = b"\x00asm\x01\x00\x00\x00" + section(1, types) + section(3, funcs) + section(5, memory) + \
    section(6, globals_) + section(7, exports) + section(10, code) + section(11, datas)

with open(os.path.join(os.path.dirname(os.path.abspath(__file__)), "echo.wasm"), "wb") as f:
    f.write(module)
print("echo.wasm: %d bytes" % len(module))
