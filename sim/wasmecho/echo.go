// Package wasmecho holds a hand-assembled CosmWasm contract whose execute entry point
// returns its own message as the Response: the caller decides which sub-messages the
// contract sends (see gen.py).  It gives the simulation contract principals.
package wasmecho

import _ "embed"

//go:embed echo.wasm
var Code []byte
