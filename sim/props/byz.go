package props

import (
	"fmt"
	"github.com/cosmos/gogoproto/proto"
	valsettypes "github.com/palomachain/paloma/v2/x/valset/types"
	"math/big"
	"strings"

	"cosmossdk.io/math"
	treasurytypes "github.com/palomachain/paloma/v2/x/treasury/types"
	"verifsim/core"
	"verifsim/world"

	codectypes "github.com/cosmos/cosmos-sdk/codec/types"
	"github.com/ethereum/go-ethereum/common"
	ethtypes "github.com/ethereum/go-ethereum/core/types"
	consensustypes "github.com/palomachain/paloma/v2/x/consensus/types"
	evmtypes "github.com/palomachain/paloma/v2/x/evm/types"
	"verifsim/evmsim"
)

// queueMsgAsQuery converts a queue snapshot entry into the form relayers work with, keeping the first n signatures.
func queueMsgAsQuery(q *QMsg, n int) *consensustypes.MessageWithSignatures {
	m := &consensustypes.MessageWithSignatures{Id: q.ID, Msg: q.Raw.Msg, GasEstimate: q.Raw.GasEstimate, BytesToSign: q.Bytes}
	for i, sd := range q.Raw.SignData {
		if i >= n {
			break
		}
		m.SignData = append(m.SignData, &consensustypes.ValidatorSignature{ValAddress: sd.ValAddress, Signature: sd.Signature, ExternalAccountAddress: sd.ExternalAccountAddress, PublicKey: sd.PublicKey})
	}
	return m
}

// LieKinds is the menu of a lying relayer (DESIGN §4 C07).
var LieKinds = []string{"corrupt-arg-reverted", "corrupt-arg-success-elsewhere", "replay-used-tx", "other-message-tx", "honest-data-reverted", "unrelated-tx"}

// byzRelay implements Hooks.Relay for a lying assignee. It returns true when it took over.
func (w *JobWorld) byzRelay(p *Pigeon, chain string, m *consensustypes.MessageWithSignatures) bool {
	t := w.T
	b := w.Bridge
	ch := b.Chains[chain]
	eth := p.V.Eth[chain]
	var cm consensustypes.ConsensusMsg
	if err := b.N.App.AppCodec().UnpackAny(m.Msg, &cm); err != nil {
		return false
	}
	msg, ok := cm.(*evmtypes.Message)
	if !ok {
		return false
	}
	if up, isUpload := msg.Action.(*evmtypes.Message_UploadSmartContract); isUpload {
		if !b.ChainActive(chain) {
			return false // the very first deployment is relayed honestly (otherwise nothing ever starts)
		}
		// a replacement of the bridge contract: the liar deploys something else (successfully) and reports it
		if t.Draw(3) == 0 {
			return false
		}
		code, ctor := up.UploadSmartContract.Bytecode, up.UploadSmartContract.ConstructorInput
		flip := func(bz []byte) []byte {
			c := append([]byte(nil), bz...)
			if len(c) > 0 {
				c[t.Intn(len(c))] ^= byte(1 + t.Intn(255))
			}
			return c
		}
		join := func(parts ...[]byte) []byte {
			var out []byte
			for _, p := range parts {
				out = append(out, p...)
			}
			return out
		}
		kinds := []string{"upload-corrupt-ctor", "upload-spliced-ctor", "upload-appended", "upload-truncated", "upload-corrupt-code", "upload-ctor-only-tail"}
		kind := kinds[t.Intn(len(kinds))]
		var data []byte
		switch kind {
		case "upload-corrupt-ctor":
			data = join(code, flip(ctor))
		case "upload-spliced-ctor":
			data = join(code, flip(ctor), ctor) // its own constructor arguments first, the expected ones as dead tail
		case "upload-appended":
			data = join(code, ctor, []byte{byte(t.Intn(256)), 0xad})
		case "upload-truncated":
			all := join(code, ctor)
			data = all[:len(all)-1-t.Intn(32)]
		case "upload-corrupt-code":
			data = join(flip(code), ctor)
		default:
			data = join(code, []byte{0x60, 0x01}, ctor)
		}
		rec := ch.DeployOther(eth, data)
		var vsID uint64
		if snap, err := b.N.App.ValsetKeeper.GetCurrentSnapshot(b.Ctx()); err == nil && snap != nil {
			vsID = snap.Id
		}
		b.R.Stats.Fault("relayer_lie_" + kind)
		b.R.Trace.Event("relay-lie", "%s msg=%d by=%s kind=%s status=%d", chain, m.Id, p.V.Acct.Name, kind, rec.Receipt.Status)
		return p.send("publicaccess", &consensustypes.MsgSetPublicAccessData{Metadata: p.meta(), MessageID: m.Id, QueueTypeName: queueName(chain), Data: rec.Tx.Hash().Bytes(), ValsetID: vsID})
	}
	if t.Draw(3) == 0 {
		return false // sometimes behave
	}
	valset, ok := p.onChainValset(chain)
	if !ok {
		return false
	}
	compass, _, active := b.CompassOf(chain)
	if !active {
		return false
	}
	data, power, err := p.CallData(chain, m, msg, valset, eth.Addr)
	if err != nil || power < evmsim.PowerThreshold {
		return false
	}
	kind := LieKinds[t.Intn(len(LieKinds))]
	var rec *evmsim.TxRecord
	elsewhere := common.HexToAddress("0x00000000000000000000000000000000000d0d0d")
	corrupt := func() []byte {
		c := append([]byte(nil), data...)
		// flip one byte somewhere in the argument area (never the selector)
		pos := 4 + t.Intn(len(c)-4)
		c[pos] ^= byte(1 + t.Intn(255))
		return c
	}
	switch kind {
	case "corrupt-arg-reverted":
		rec = ch.Call(eth, compass, corrupt())
	case "corrupt-arg-success-elsewhere":
		rec = ch.OtherTx(eth, elsewhere, corrupt())
	case "replay-used-tx":
		if len(w.usedTxOrder) == 0 {
			return false
		}
		rec = ch.Txs[w.usedTxOrder[t.Intn(len(w.usedTxOrder))]]
		if rec == nil {
			return false
		}
	case "other-message-tx":
		// call data of this message with another message id / valset id: produced by mutating the query copy
		m2 := *m
		m2.Id = m.Id + 7
		d2, _, err := p.CallData(chain, &m2, msg, valset, eth.Addr)
		if err != nil {
			return false
		}
		if _, isVs := msg.Action.(*evmtypes.Message_UpdateValset); isVs {
			d2 = corrupt()
		}
		rec = ch.OtherTx(eth, elsewhere, d2)
	case "honest-data-reverted":
		// exact call data, but executed so that the contract reverts: first deliver for real, then replay and publish the replay
		first := ch.Call(eth, compass, data)
		_ = first
		rec = ch.Call(eth, compass, data)
		if rec.Receipt.Status == ethtypes.ReceiptStatusSuccessful {
			// (update_valset can legitimately succeed only once; a second success cannot happen) publish the first then
			rec = first
			kind = "honest"
		}
	default:
		rec = ch.OtherTx(eth, elsewhere, []byte{0xde, 0xad, 0xbe, 0xef})
	}
	// the delivery report also names the validator set the transaction was built against: the liar may name one that
	// does not exist (never created, or pruned)
	reportedValset := valset.ValsetID
	if t.Draw(4) == 3 {
		reportedValset = []uint64{valset.ValsetID + 1000, 999_999, valset.ValsetID + 1}[t.Intn(3)]
		kind += "+unknown-valset-id"
	}
	b.R.Stats.Fault("relayer_lie_" + kind)
	b.R.Trace.Event("relay-lie", "%s msg=%d by=%s kind=%s status=%d", chain, m.Id, p.V.Acct.Name, kind, rec.Receipt.Status)
	return p.send("publicaccess", &consensustypes.MsgSetPublicAccessData{Metadata: p.meta(), MessageID: m.Id, QueueTypeName: queueName(chain), Data: rec.Tx.Hash().Bytes(), ValsetID: reportedValset})
}

// byzEvidence implements Hooks.Evidence for an evidence splitter.
func (w *JobWorld) byzEvidence(vi int) func(string, *consensustypes.MessageWithSignatures, *codectypes.Any) *codectypes.Any {
	return func(chain string, m *consensustypes.MessageWithSignatures, honest *codectypes.Any) *codectypes.Any {
		t := w.T
		switch t.Draw(4) {
		case 0:
			return honest
		case 1:
			return nil
		case 2:
			w.R.Stats.Fault("evidence_split")
			return mustAny(&evmtypes.SmartContractExecutionErrorProof{ErrorMessage: fmt.Sprintf("lie-%d", t.Intn(3))})
		default:
			// some other real transaction
			ch := w.Chains[chain]
			if len(ch.TxOrder) == 0 {
				return honest
			}
			w.R.Stats.Fault("evidence_other_tx")
			return TxProof(ch.Txs[ch.TxOrder[t.Intn(len(ch.TxOrder))]])
		}
	}
}

// stripReceipt is a colluding lie: every Byzantine attester submits the relayed transaction without its receipt
// (byte-identical among the colluders, so that they can form a quorum on it).
func (w *JobWorld) stripReceipt(chain string, m *consensustypes.MessageWithSignatures, honest *codectypes.Any) *codectypes.Any {
	if honest == nil {
		return nil
	}
	var ev consensustypes.ConsensusMsg
	_ = ev
	var proof evmtypes.TxExecutedProof
	if honest.TypeUrl != "/"+proto.MessageName(&proof) {
		return honest
	}
	if err := proof.Unmarshal(honest.Value); err != nil {
		return honest
	}
	w.R.Stats.Fault("evidence_receipt_stripped")
	return mustAny(&evmtypes.TxExecutedProof{SerializedTX: proof.SerializedTX})
}

// byzEstimate implements Hooks.Estimate with boundary values over the whole uint64 range.
func (w *JobWorld) byzEstimate(string, uint64, uint64) uint64 {
	w.R.Stats.Fault("estimate_extreme")
	t := w.T
	switch t.Draw(4) {
	case 0:
		return (1 << 63) + t.Draw(1000)
	case 1:
		return ^uint64(0) - t.Draw(1000)
	}
	v := w.T.Uint64()
	if v == 0 {
		v = 1
	}
	return v
}

var _ = big.NewInt

// hostileInputs lets hostile validators and users submit extreme values in every field they control (C09).
func (w *JobWorld) hostileInputs(byz map[int]bool) {
	t := w.T
	for vi := range w.Vals {
		if !byz[vi] || w.Pigeons[vi].Down {
			continue
		}
		p := w.Pigeons[vi]
		switch t.Draw(12) {
		case 0: // extreme relayer fee multiplier for itself
			mult := []string{"-1", "-0.000000000000000001", "0", "100000000000000000000000000000", "18446744073709551616", "0.000000000000000001", "340282366920938463463374607431768211455"}[t.Intn(7)]
			d, err := math.LegacyNewDecFromStr(mult)
			if err != nil {
				continue
			}
			fs := &treasurytypes.RelayerFeeSetting{ValAddress: p.V.Acct.ValBech32()}
			for _, id := range w.Order {
				fs.Fees = append(fs.Fees, treasurytypes.RelayerFeeSetting_FeeSetting{Multiplicator: d, ChainReferenceId: id})
			}
			if p.send("relayerfee", &treasurytypes.MsgUpsertRelayerFee{Metadata: p.meta(), FeeSetting: fs}) {
				w.R.Stats.Fault("hostile_fee_multiplier")
				w.R.Trace.Event("hostile-fee", "%s %s", p.V.Acct.Name, mult)
			}
		case 1, 2: // publish delivery data for somebody else's message / before the estimate is elected / twice
			ids := SortedIDs(w.Cur)
			if len(ids) == 0 {
				continue
			}
			q := w.Cur[ids[t.Intn(len(ids))]]
			if q.Msg == nil {
				continue
			}
			ch := w.Chains[q.Chain]
			data := t.Bytes(32)
			if len(ch.TxOrder) > 0 && t.Draw(2) == 0 {
				data = ch.TxOrder[t.Intn(len(ch.TxOrder))].Bytes() // a real transaction honest attesters can find
			}
			if p.send("publicaccess", &consensustypes.MsgSetPublicAccessData{Metadata: p.meta(), MessageID: q.ID, QueueTypeName: q.Queue, Data: data, ValsetID: uint64(t.Intn(4))}) {
				w.R.Stats.Fault("hostile_public_access_data")
				w.R.Trace.Event("hostile-publish", "%s msg=%d elected=%v assignee=%v", p.V.Acct.Name, q.ID, q.Raw.GasEstimate > 0, q.Msg.Assignee == p.V.Acct.ValBech32())
			}
		case 3: // error data for foreign messages
			ids := SortedIDs(w.Cur)
			if len(ids) == 0 {
				continue
			}
			q := w.Cur[ids[t.Intn(len(ids))]]
			if p.send("errordata", &consensustypes.MsgSetErrorData{Metadata: p.meta(), MessageID: q.ID, QueueTypeName: q.Queue, Data: t.Bytes(1 + t.Intn(64))}) {
				w.R.Stats.Fault("hostile_error_data")
			}
		case 4: // malformed evidence
			ids := SortedIDs(w.Cur)
			if len(ids) == 0 {
				continue
			}
			q := w.Cur[ids[t.Intn(len(ids))]]
			var proof *codectypes.Any
			switch t.Draw(3) {
			case 0:
				proof = mustAny(&evmtypes.TxExecutedProof{SerializedTX: t.Bytes(40), SerializedReceipt: t.Bytes(10)})
			case 1:
				proof = mustAny(&evmtypes.ValidatorBalancesAttestationRes{BlockHeight: t.Uint64(), Balances: []string{"x", "-1"}})
			default:
				proof = mustAny(&evmtypes.SmartContractExecutionErrorProof{ErrorMessage: string(t.Bytes(t.Intn(2000)))})
			}
			if p.send("evidence", &consensustypes.MsgAddEvidence{Metadata: p.meta(), Proof: proof, MessageID: q.ID, QueueTypeName: q.Queue}) {
				w.R.Stats.Fault("hostile_evidence")
			}
		}
	}
}

// abortViolation turns an aborted block into a C09 violation when the panic / error came out of a Paloma module's begin/end blocker.
func (s *Sim) abortViolation() *core.Violation {
	if !s.Aborted || s.Last == nil {
		return nil
	}
	br := s.Last
	frame := world.PalomaBlockerFrame(br.PanicStack)
	module := "?"
	if i := strings.Index(frame, "/x/"); i >= 0 {
		rest := frame[i+3:]
		if j := strings.IndexAny(rest, "/."); j >= 0 {
			module = rest[:j]
		}
	}
	if br.Panic != "" {
		if frame == "" {
			// a panic that escaped FinalizeBlock outside a Paloma begin/end blocker: still reported, attributed by the deepest paloma frame
			for _, line := range strings.Split(br.PanicStack, "\n") {
				if strings.Contains(line, "github.com/palomachain/paloma/v2/") {
					frame = strings.TrimSpace(line)
					break
				}
			}
		}
		return vio("C09", "block-processing-panicked", br.Height, map[string]string{"module": module, "panic": firstLine(br.Panic)},
			fmt.Sprintf("FinalizeBlock of height %d panicked: %s; first Paloma begin/end-blocker frame: %s", br.Height, firstLine(br.Panic), frame))
	}
	return vio("C09", "block-processing-failed", br.Height, map[string]string{"module": module}, fmt.Sprintf("block %d failed: %v", br.Height, br.Err))
}

func firstLine(s string) string {
	if i := strings.IndexByte(s, '\n'); i >= 0 {
		s = s[:i]
	}
	if len(s) > 200 {
		s = s[:200]
	}
	return s
}

// byzSign lets a Byzantine validator submit signatures that must never be stored with a message (C06): by a key that is
// not the one it registered for the chain, over other bytes, in another validator's name, with the key it registered for
// ANOTHER chain, or twice.
func (w *JobWorld) byzSign(vi int) {
	t := w.T
	p := w.Pigeons[vi]
	if p.Down {
		return
	}
	chain := w.Order[t.Intn(len(w.Order))]
	q := queueName(chain)
	res, err := w.N.App.ConsensusKeeper.QueuedMessagesForSigning(w.Ctx(), &consensustypes.QueryQueuedMessagesForSigningRequest{ValAddress: p.V.Acct.ValAddr(), QueueTypeName: q})
	if err != nil || len(res.MessageToSign) == 0 {
		return
	}
	m := res.MessageToSign[t.Intn(len(res.MessageToSign))]
	own := p.V.Eth[chain]
	stray := world.NewEthKey(w.R.Seed, fmt.Sprintf("stray-sig-%d-%d", vi, w.N.Height))
	other := w.Vals[(vi+1)%len(w.Vals)].Eth[chain]
	sig := func(k *world.EthKey, bz []byte, as common.Address) *consensustypes.ConsensusMessageSignature {
		return &consensustypes.ConsensusMessageSignature{Id: m.Id, QueueTypeName: q, Signature: k.SignEthMessage(bz), SignedByAddress: as.Hex()}
	}
	var sigs []*consensustypes.ConsensusMessageSignature
	kind := ""
	if t.Draw(5) == 4 {
		// rotate the key registered for the chain, then sign a message this validator has already signed once more
		// with the new key (a validator must appear once per message, whatever key it uses)
		for _, id := range SortedIDs(w.Cur) {
			cq := w.Cur[id]
			if cq.Chain != chain || cq.Msg == nil {
				continue
			}
			mine := false
			for _, sd := range cq.Raw.SignData {
				if sd.ValAddress.Equals(p.V.Acct.Addr) {
					mine = true
				}
			}
			if !mine {
				continue
			}
			if rot := w.rotated[vi]; rot == nil || rot[chain] == nil {
				nk := world.NewEthKey(w.R.Seed, fmt.Sprintf("rotated-%d-%s", vi, chain))
				var list []*valsettypes.ExternalChainInfo
				for _, c := range w.Order {
					k := p.V.Eth[c]
					if c == chain {
						k = nk
					}
					list = append(list, &valsettypes.ExternalChainInfo{ChainType: "evm", ChainReferenceID: c, Address: k.Addr.Hex(), Pubkey: k.Addr.Bytes()})
				}
				if p.send("chaininfo", &valsettypes.MsgAddExternalChainInfoForValidator{Metadata: p.meta(), ChainInfos: list}) {
					if w.rotated == nil {
						w.rotated = map[int]map[string]*world.EthKey{}
					}
					if w.rotated[vi] == nil {
						w.rotated[vi] = map[string]*world.EthKey{}
					}
					w.rotated[vi][chain] = nk
					w.Registered[vi][chain] = append(w.Registered[vi][chain], nk.Addr)
					p.V.Eth[chain] = nk // from now on the relayer uses the new key
					w.R.Stats.Fault("byzantine_key_rotation")
					w.R.Trace.Event("byz-rotate", "%s %s -> %s", p.V.Acct.Name, chain, nk.Addr.Hex())
				}
				return
			}
			nk := w.rotated[vi][chain]
			again := &consensustypes.ConsensusMessageSignature{Id: id, QueueTypeName: q, Signature: nk.SignEthMessage(cq.Bytes), SignedByAddress: nk.Addr.Hex()}
			if p.send("byz-sign", &consensustypes.MsgAddMessagesSignatures{Metadata: p.meta(), SignedMessages: []*consensustypes.ConsensusMessageSignature{again}}) {
				w.R.Stats.Fault("byzantine_signature")
				w.R.Trace.Event("byz-sign", "%s msg=%d second signature with the rotated key", p.V.Acct.Name, id)
			}
			return
		}
	}
	switch t.Intn(6) {
	case 0:
		sigs, kind = append(sigs, sig(stray, m.BytesToSign, own.Addr)), "stray key, registered address claimed"
	case 1:
		wrong := append([]byte(nil), m.BytesToSign...)
		wrong[5] ^= 0x20
		sigs, kind = append(sigs, sig(own, wrong, own.Addr)), "own key over other bytes"
	case 2:
		sigs, kind = append(sigs, sig(stray, m.BytesToSign, stray.Addr)), "unregistered key, honestly declared"
	case 3:
		sigs, kind = append(sigs, sig(own, m.BytesToSign, other.Addr)), "own signature under another validator's address"
	case 4:
		if len(w.Order) < 2 {
			return
		}
		for _, c := range w.Order {
			if c != chain {
				k := p.V.Eth[c]
				sigs, kind = append(sigs, sig(k, m.BytesToSign, k.Addr)), "key registered for another chain"
				break
			}
		}
	default:
		sigs, kind = append(sigs, sig(own, m.BytesToSign, own.Addr), sig(own, m.BytesToSign, own.Addr)), "valid signature twice in one transaction"
	}
	if p.send("byz-sign", &consensustypes.MsgAddMessagesSignatures{Metadata: p.meta(), SignedMessages: sigs}) {
		w.R.Stats.Fault("byzantine_signature")
		w.R.Trace.Event("byz-sign", "%s msg=%d %s", p.V.Acct.Name, m.Id, kind)
	}
}

// reAttest lets a validator send evidence once more for a message it has already attested: the same proof again (a retry)
// or another one (a correction). Only its latest submission may count, and it may count once.
func (w *JobWorld) reAttest(vi int) bool {
	t := w.T
	p := w.Pigeons[vi]
	if p.Down {
		return false
	}
	for _, id := range SortedIDs(w.Cur) {
		q := w.Cur[id]
		for _, e := range q.Raw.Evidence {
			if !e.ValAddress.Equals(p.V.Acct.Addr) {
				continue
			}
			proof := e.Proof
			kind := "same proof again"
			if t.Draw(2) == 1 {
				proof = mustAny(&evmtypes.SmartContractExecutionErrorProof{ErrorMessage: fmt.Sprintf("corrected-%d", t.Intn(3))})
				kind = "another proof"
			}
			if p.send("evidence", &consensustypes.MsgAddEvidence{Metadata: p.meta(), Proof: proof, MessageID: id, QueueTypeName: q.Queue}) {
				w.R.Stats.Fault("evidence_resubmitted")
				w.R.Trace.Event("re-attest", "%s msg=%d %s", p.V.Acct.Name, id, kind)
				return true
			}
		}
	}
	return false
}
