package props

import (
	"fmt"
	govv1 "github.com/cosmos/cosmos-sdk/x/gov/types/v1"
	"math/big"
	"time"

	"cosmossdk.io/math"
	sdk "github.com/cosmos/cosmos-sdk/types"
	vestingtypes "github.com/cosmos/cosmos-sdk/x/auth/vesting/types"
	"github.com/ethereum/go-ethereum/common"
	"github.com/palomachain/paloma/v2/app"
	palomatypes "github.com/palomachain/paloma/v2/x/paloma/types"
	skywaytypes "github.com/palomachain/paloma/v2/x/skyway/types"
	"verifsim/core"
	"verifsim/world"
)

func init() { Register("C18", c18) }

type c18Lic struct {
	addr   string
	amount math.Int
	months uint32
	via    string
	denom  string
}

type c18Op struct {
	kind   string
	user   *world.Account
	client string
	amount math.Int
	months uint32
	tx     []byte
	denom  string
}

type c18Active struct {
	acct   *world.Account
	amount math.Int
	months uint32
	at     time.Time
	denom  string
}

func c18(r *core.Run) []*core.Violation {
	t := r.Tape
	cfg := BridgeCfg{Chains: []ChainSpec{{"eth-main", 1}}}
	if t.Draw(2) == 1 {
		cfg.Chains = append(cfg.Chains, ChainSpec{"bnb-main", 56})
	}
	cfg.NVals = 3 + t.Intn(2)
	cfg.NUsers = 4
	cfg.InitialHeight = 40
	cfg.JumpPerMille = 60
	w := NewSkyWorld(r, cfg, 1, "C18")
	if w.Aborted {
		w.abortNote("C18")
		return nil
	}
	aw := NewAttWatcher(w)
	saleKey := w.EvmUsers[0]
	funder := w.Users[1]
	granter := w.Users[2]
	// which parts of the sale configuration governance sets up (all three are needed for a sale to create a licence)
	withGranter, withFunders, withContract := t.Draw(5) != 0, t.Draw(5) != 0, t.Draw(5) != 0
	if withGranter {
		w.Gov.Propose("feegranter", nil, Legacy(palomaFeegranterProposal(granter.Bech32())))
	}
	if withFunders {
		w.Gov.Propose("funders", nil, Legacy(palomaFundersProposal([]string{funder.Bech32()})))
	}
	// the authorised sale contracts according to governance: every passed proposal replaces the whole set
	type saleProp struct {
		p   *Proposal
		set map[string]common.Address
	}
	var saleProps []*saleProp
	proposeSaleContracts := func(set map[string]common.Address) {
		var l []*skywaytypes.LightNodeSaleContract
		for _, c := range core.SortedKeys(set) {
			l = append(l, &skywaytypes.LightNodeSaleContract{ChainReferenceId: c, ContractAddress: set[c].Hex()})
		}
		pr := w.Gov.Propose(fmt.Sprintf("sale-contracts %d", len(saleProps)), nil, Legacy(&skywaytypes.SetLightNodeSaleContractsProposal{Title: "sale-contracts", Description: "d", LightNodeSaleContracts: l}))
		saleProps = append(saleProps, &saleProp{pr, set})
	}
	authorisedNow := func() map[string]common.Address {
		cur := map[string]common.Address{}
		for _, sp := range saleProps {
			if sp.p.ID == 0 {
				continue
			}
			if gp, err := w.N.App.GovKeeper.Proposals.Get(w.Ctx(), sp.p.ID); err == nil && gp.Status == govv1.StatusPassed {
				cur = sp.set
			}
		}
		return cur
	}
	if withContract {
		set := map[string]common.Address{}
		for _, c := range w.Order {
			set[c] = saleKey.Addr
		}
		proposeSaleContracts(set)
	}
	authPrev := map[string]common.Address{}
	module := moduleAddr(palomatypes.ModuleName)
	licences := map[string]*c18Lic{}
	actives := map[string]*c18Active{}
	var fresh []*world.Account // licensee key holders
	newFresh := func() *world.Account {
		a := world.NewAccount(r.Seed, fmt.Sprintf("licensee%d", len(fresh)), nil)
		fresh = append(fresh, a)
		return a
	}
	var pending []*c18Op
	forget := false
	prevRestart := w.Sim.OnRestart
	w.Sim.OnRestart = func() {
		if prevRestart != nil {
			prevRestart()
		}
		for _, a := range fresh {
			w.N.SyncAccount(a)
		}
		forget = true
	}
	var viols []*core.Violation
	bad := func(class string, h int64, format string, args ...any) {
		viols = append(viols, vio("C18", class, h, nil, fmt.Sprintf(format, args...)))
	}
	type saleEv struct {
		nonce uint64
		buyer string
		grain int64
		chain string
		from  common.Address
	}
	sales := map[string]saleEv{}
	hadAccount := func(addr string) bool {
		a, err := sdk.AccAddressFromBech32(addr)
		if err != nil {
			return false
		}
		return w.N.App.AccountKeeper.HasAccount(w.Ctx(), a)
	}
	nBlocks := 90 + t.Intn(100)
	for i := 0; i < nBlocks && !w.Aborted && len(viols) == 0; i++ {
		// snapshot of facts at the previous boundary
		preAccount := map[string]bool{}
		preCfgComplete := false
		{
			ctx := w.Ctx()
			_, e1 := w.N.App.PalomaKeeper.LightNodeClientFeegranter(ctx)
			f, e2 := w.N.App.PalomaKeeper.LightNodeClientFunders(ctx)
			preCfgComplete = e1 == nil && e2 == nil && f != nil && len(f.Accounts) > 0
		}
		// governance replaces the set of authorised sale contracts now and then (dropping chains, changing addresses)
		if withContract && !w.Gov.Busy() && t.Chance(1, 30) {
			set := map[string]common.Address{}
			for _, c := range w.Order {
				switch t.Intn(3) {
				case 0: // dropped
				case 1:
					set[c] = saleKey.Addr
				default:
					set[c] = w.EvmUsers[1].Addr
				}
			}
			proposeSaleContracts(set)
			r.Stats.Probe("sale_contract_set_replaced")
		}
		nOps := t.Intn(3)
		for j := 0; j < nOps; j++ {
			u := w.Users[t.Intn(len(w.Users))]
			switch k := t.Draw(10); {
			case k < 3: // direct licence
				var client string
				switch t.Draw(5) {
				case 0:
					client = w.Users[t.Intn(len(w.Users))].Bech32() // existing account
				case 1:
					if len(licences) > 0 {
						client = core.SortedKeys(licences)[t.Intn(len(licences))] // already licensed
						break
					}
					fallthrough
				default:
					client = newFresh().Bech32()
				}
				amt := math.NewIntFromUint64(1 + t.Uint64()%2_000_000_000)
				months := uint32(t.Intn(40))
				preAccount[client] = hadAccount(client)
				// licences are mostly paid in the staking coin, sometimes in another coin the buyer holds (a bridged factory token)
				denom := app.BondDenom
				if t.Draw(4) == 3 {
					denom = w.Tokens[0].Denom
					r.Stats.Probe("licence_in_other_denom")
				}
				res := w.Submit(u, &palomatypes.MsgAddLightNodeClientLicense{Metadata: meta(u), ClientAddress: client, Amount: sdk.NewCoin(denom, amt), VestingMonths: months})
				if res.Accepted() {
					pending = append(pending, &c18Op{kind: "license", user: u, client: client, amount: amt, months: months, tx: res.Tx, denom: denom})
				}
			case k < 7: // activation / re-activation / auth by a licensee (or by somebody without a licence)
				var who *world.Account
				if len(fresh) > 0 && t.Draw(6) != 0 {
					who = fresh[t.Intn(len(fresh))]
				} else {
					who = u
				}
				if !who.Known && !w.N.SyncAccount(who) {
					continue // no account on chain: cannot even sign
				}
				var msg sdk.Msg = &palomatypes.MsgRegisterLightNodeClient{Metadata: meta(who)}
				kind := "activate"
				if t.Draw(5) == 0 {
					msg = &palomatypes.MsgAuthLightNodeClient{Metadata: meta(who)}
					kind = "auth"
				}
				res := w.Submit(who, msg)
				if res.Accepted() {
					pending = append(pending, &c18Op{kind: kind, user: who, client: who.Bech32(), tx: res.Tx})
				}
			default: // a sale on the remote chain
				saleChain := w.Order[t.Intn(len(w.Order))]
				compass, _, ok := w.CompassOf(saleChain)
				if !ok {
					continue
				}
				from := saleKey
				if t.Draw(5) == 0 {
					from = w.EvmUsers[1]
				}
				var buyer sdk.AccAddress
				switch t.Draw(5) {
				case 0:
					buyer = w.Users[t.Intn(len(w.Users))].Addr
				default:
					buyer = newFresh().Addr
				}
				grain := int64(1 + t.Intn(40))
				if t.Draw(8) == 0 {
					grain = 10_000_000 // more than the funder has
				}
				data, _ := evmsimPack("emit_nodesale_event", common.BytesToAddress(t.Bytes(20)), palomaReceiver(buyer), big.NewInt(1), big.NewInt(grain))
				rec := w.Chains[saleChain].Call(from, compass, data)
				if rec.Reason == "" {
					cp := w.Chains[saleChain].Compasses[compass]
					sales[fmt.Sprintf("%s/%d", saleChain, cp.GravityNonce)] = saleEv{cp.GravityNonce, buyer.String(), grain, saleChain, from.Addr}
					r.Stats.Probe("node_sales_emitted")
				}
			}
		}
		w.Gov.Tick()
		// balances before the block
		ctx0 := w.Ctx()
		funderBefore := w.N.App.BankKeeper.GetBalance(ctx0, funder.Addr, app.BondDenom).Amount
		br := w.Step()
		if w.Aborted {
			break
		}
		for _, v := range w.AfterBlock(br) {
			r.Note("C01", v.Class, "%s", v.Detail)
		}
		aw.collectVotes(br)
		aw.scan()
		h := br.Height
		ctx := w.Ctx()
		// --- tx results in block order
		order := map[string]int{}
		for k, tx := range br.Txs {
			order[string(tx)] = k
		}
		var done, rest []*c18Op
		for _, op := range pending {
			if _, in := order[string(op.tx)]; in {
				done = append(done, op)
			} else {
				rest = append(rest, op)
			}
		}
		pending = rest
		if forget {
			pending, forget = nil, false
		}
		for x := 1; x < len(done); x++ {
			for y := x; y > 0 && order[string(done[y].tx)] < order[string(done[y-1].tx)]; y-- {
				done[y], done[y-1] = done[y-1], done[y]
			}
		}
		for _, op := range done {
			res := w.Result(op.tx)
			ok := res.Code == 0
			r.Trace.Event(op.kind, "%s client=%s ok=%v", op.user.Name, op.client[:14], ok)
			switch op.kind {
			case "license":
				if !ok {
					continue
				}
				r.Stats.Probe("licences_created")
				if _, dup := licences[op.client]; dup {
					bad("licence-for-licensed-address", h, "a second licence was created for %s", op.client)
				}
				if _, act := actives[op.client]; act || preAccount[op.client] {
					bad("licence-for-existing-account", h, "a licence was created for %s which already had an account", op.client)
				}
				licences[op.client] = &c18Lic{op.client, op.amount, op.months, "direct", op.denom}
			case "activate":
				lic := licences[op.client]
				if !ok {
					continue
				}
				r.Stats.Probe("activations")
				if lic == nil {
					bad("activation-without-licence", h, "%s activated although it holds no (open) licence (second activation or never licensed)", op.client)
					continue
				}
				delete(licences, op.client)
				actives[op.client] = &c18Active{op.user, lic.amount, lic.months, br.Time, lic.denom}
				acc := w.N.App.AccountKeeper.GetAccount(ctx, op.user.Addr)
				va, isV := acc.(*vestingtypes.ContinuousVestingAccount)
				if !isV {
					bad("not-vesting-after-activation", h, "%s is a %T after activation, not a continuous vesting account", op.client, acc)
					continue
				}
				ov := va.OriginalVesting.AmountOf(lic.denom)
				if !ov.Equal(lic.amount) || len(va.OriginalVesting) > 1 {
					bad("vesting-amount", h, "%s: original vesting %s, licence amount %s%s", op.client, va.OriginalVesting, lic.amount, lic.denom)
				}
				if va.StartTime != br.Time.Unix() {
					bad("vesting-start", h, "%s: vesting starts at %d, activation block time is %d", op.client, va.StartTime, br.Time.Unix())
				}
				lo := br.Time.Unix() + int64(lic.months)*28*86400
				hi := br.Time.Unix() + int64(lic.months)*31*86400
				if va.EndTime < lo || va.EndTime > hi {
					bad("vesting-end", h, "%s: vesting ends at %d, expected start + %d months (between %d and %d)", op.client, va.EndTime, lic.months, lo, hi)
				}
			}
		}
		// --- observed sales of this block
		for _, k := range core.SortedKeys(aw.Cur) {
			cur := aw.Cur[k]
			if prev := aw.Prev[k]; !cur.Observed || (prev != nil && prev.Observed) {
				continue
			}
			sc, isSale := cur.Claim.(*skywaytypes.MsgLightNodeSaleClaim)
			if !isSale {
				continue
			}
			ev, known := sales[fmt.Sprintf("%s/%d", cur.Chain, sc.SkywayNonce)]
			if !known {
				continue
			}
			r.Stats.Probe("sales_observed")
			_, e1 := w.N.App.PalomaKeeper.LightNodeClientFeegranter(ctx)
			f, e2 := w.N.App.PalomaKeeper.LightNodeClientFunders(ctx)
			cfgNow := e1 == nil && e2 == nil && f != nil && len(f.Accounts) > 0
			authNow := authorisedNow()
			a1, ok1 := authPrev[ev.chain]
			a2, ok2 := authNow[ev.chain]
			authorPre, authorNow := ok1 && a1 == ev.from, ok2 && a2 == ev.from
			need := math.NewInt(ev.grain).MulRaw(1_000_000)
			funded := funderBefore.GTE(need)
			_, hasLic := licences[ev.buyer]
			_, isActive := actives[ev.buyer]
			existed := preAccount[ev.buyer] || isActive
			if !existed {
				if _, seen := preAccount[ev.buyer]; !seen {
					// account status before this block: licensee keys never have accounts before their licence
					for _, u := range w.Users {
						if u.Bech32() == ev.buyer {
							existed = true
						}
					}
				}
			}
			lic, err := w.N.App.PalomaKeeper.GetLightNodeClientLicense(ctx, ev.buyer)
			created := err == nil && lic != nil && !hasLic
			should := cfgNow && preCfgComplete && authorPre && authorNow && funded && !hasLic && !existed
			mustNot := (!cfgNow && !preCfgComplete) || (!authorPre && !authorNow) || hasLic || existed
			r.Trace.Event("sale-observed", "%s nonce=%d buyer=%s created=%v cfg=%v/%v authorised=%v/%v funded=%v", ev.chain, ev.nonce, ev.buyer[:14], created, preCfgComplete, cfgNow, authorPre, authorNow, funded)
			if created {
				r.Stats.Probe("sale_licences_created")
				if mustNot {
					bad("sale-licence-without-preconditions", h, "sale nonce %d on %s from contract %s created a licence for %s although config complete=%v, contract authorised by governance (before / after this block)=%v/%v, buyer had licence=%v, buyer had account=%v", ev.nonce, ev.chain, ev.from.Hex(), ev.buyer, cfgNow, authorPre, authorNow, hasLic, existed)
				}
				if !lic.Amount.Amount.Equal(need) || lic.Amount.Denom != app.BondDenom {
					bad("sale-licence-amount", h, "sale of %d grain created a licence over %s", ev.grain, lic.Amount)
				}
				licences[ev.buyer] = &c18Lic{ev.buyer, need, lic.VestingMonths, "sale", app.BondDenom}
			} else {
				if should {
					r.Note("C02", "sale-not-applied", "sale nonce %d for %s met every precondition but created no licence", ev.nonce, ev.buyer)
				}
				// nothing may have changed for the buyer
				if !existed && hadAccount(ev.buyer) {
					bad("failed-sale-left-account", h, "sale nonce %d created no licence but an account now exists for %s", ev.nonce, ev.buyer)
				}
			}
		}
		// --- escrow equality and licence set
		all, err := w.N.App.PalomaKeeper.AllLightNodeClientLicenses(ctx)
		if err != nil {
			core.Harnessf("licences: %v", err)
		}
		sums := map[string]math.Int{app.BondDenom: math.ZeroInt(), w.Tokens[0].Denom: math.ZeroInt()}
		seen := map[string]bool{}
		for _, l := range all {
			if _, ok := sums[l.Amount.Denom]; !ok {
				sums[l.Amount.Denom] = math.ZeroInt()
			}
			sums[l.Amount.Denom] = sums[l.Amount.Denom].Add(l.Amount.Amount)
			seen[l.ClientAddress] = true
			if m, ok := licences[l.ClientAddress]; !ok {
				bad("unexplained-licence", h, "licence for %s over %s exists but no successful licence transaction or qualifying sale created it", l.ClientAddress, l.Amount)
				licences[l.ClientAddress] = &c18Lic{l.ClientAddress, l.Amount.Amount, l.VestingMonths, "?", l.Amount.Denom}
			} else if !m.amount.Equal(l.Amount.Amount) || m.denom != l.Amount.Denom {
				bad("licence-amount-changed", h, "licence of %s shows %s, created with %s", l.ClientAddress, l.Amount, m.amount)
			}
		}
		for a := range licences {
			if !seen[a] {
				bad("licence-vanished", h, "licence of %s disappeared without activation", a)
				delete(licences, a)
			}
		}
		authPrev = authorisedNow()
		for _, d := range core.SortedKeys(sums) {
			esc := w.N.App.BankKeeper.GetBalance(ctx, module, d).Amount
			if !esc.Equal(sums[d]) {
				bad("escrow-mismatch", h, "licence escrow holds %s%s but open licences in that coin sum to %s", esc, d, sums[d])
			}
		}
		r.Stats.ProbeN("open_licences_seen", int64(len(all)))
		// --- linear vesting at this (possibly much later) time
		for _, a := range core.SortedKeys(actives) {
			ac := actives[a]
			acc, ok := w.N.App.AccountKeeper.GetAccount(ctx, ac.acct.Addr).(*vestingtypes.ContinuousVestingAccount)
			if !ok {
				bad("vesting-account-lost", h, "%s is no longer a continuous vesting account", a)
				continue
			}
			bal := w.N.App.BankKeeper.GetBalance(ctx, ac.acct.Addr, ac.denom).Amount
			spend := w.N.App.BankKeeper.SpendableCoins(ctx, ac.acct.Addr).AmountOf(ac.denom)
			ov := ac.amount
			var vested math.Int
			now := br.Time.Unix()
			switch {
			case now <= acc.StartTime:
				vested = math.ZeroInt()
			case now >= acc.EndTime:
				vested = ov
			default:
				num := new(big.Int).Mul(ov.BigInt(), big.NewInt(now-acc.StartTime))
				vested = math.NewIntFromBigInt(num.Quo(num, big.NewInt(acc.EndTime-acc.StartTime)))
			}
			want := bal.Sub(ov.Sub(vested))
			if want.IsNegative() {
				want = math.ZeroInt()
			}
			diff := spend.Sub(want).Abs()
			tol := ov.QuoRaw(1_000_000_000_000).AddRaw(2)
			if diff.GT(tol) {
				bad("vesting-not-linear", h, "%s: spendable %s at t=%d, linear schedule (start %d, end %d, original %s, balance %s) gives %s", a, spend, now, acc.StartTime, acc.EndTime, ov, bal, want)
			}
			r.Stats.Probe("vesting_samples")
		}
	}
	w.abortNote("C18")
	if r.Stats.Probes["activations"] > 0 || r.Stats.Probes["sale_licences_created"] > 0 {
		r.Stats.Probe("target")
	}
	r.Sample = []string{fmt.Sprintf("config granter=%v funders=%v contract=%v; %d blocks, %d sim-days: direct licences %d, sale events %d observed %d licences from sales %d, activations %d, vesting samples %d",
		withGranter, withFunders, withContract, r.Blocks, r.SimSeconds/86400, r.Stats.Probes["licences_created"], r.Stats.Probes["node_sales_emitted"], r.Stats.Probes["sales_observed"],
		r.Stats.Probes["sale_licences_created"], r.Stats.Probes["activations"], r.Stats.Probes["vesting_samples"])}
	return viols
}
