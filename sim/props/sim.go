package props

import (
	"encoding/json"
	"fmt"
	"time"

	"cosmossdk.io/math"
	abci "github.com/cometbft/cometbft/abci/types"
	"github.com/cosmos/cosmos-sdk/codec"
	sdk "github.com/cosmos/cosmos-sdk/types"
	"github.com/palomachain/paloma/v2/app"
	"verifsim/core"
	"verifsim/world"
)

// Val is a simulated validator: operator account, consensus key, external keys.
type Val struct {
	Acct  *world.Account
	Stake math.Int
	Eth   map[string]*world.EthKey // chain reference id -> key
	Idx   int
}

// SimCfg configures the common part of a whole-node scenario.
type SimCfg struct {
	ChainID       string
	NVals         int
	Stakes        []math.Int // optional explicit stakes
	NUsers        int
	UserCoins     sdk.Coins
	InitialHeight int64
	VotingPeriod  time.Duration
	Mutate        []func(cdc codec.Codec, gs map[string]json.RawMessage)
	ExtraAccounts []world.FundedAccount
	AddrFilter    func(i int) func([]byte) bool
	// Record keeps every produced block (twin execution)
	Record bool
	// OnSubmit: see Sim.OnSubmit (set before the first transaction)
	OnSubmit func(a *world.Account, msgs []sdk.Msg, res world.SubmitResult)
	// fault knobs (probabilities are per block, x/1000)
	RestartPerMille int
	CrashPerMille   int
	JumpPerMille    int
}

// Sim is a running whole-node simulation.
type Sim struct {
	R       *core.Run
	T       *core.Tape
	N       *world.Node
	Cfg     SimCfg
	Vals    []*Val
	Users   []*world.Account
	Genesis time.Time
	Now     time.Time
	Last    *world.BlockResult
	// Aborted is set when block production failed (panic / error): the run cannot continue.
	Aborted  bool
	AbortWhy string
	// ForceJump makes the next block's time jump forward by this much (a fault placed by the scenario).
	ForceJump time.Duration
	// OnRestart is invoked after a node restart (clients resync).
	OnRestart func()
	// OnSubmit observes every transaction an actor submits (template harvesting for C03).
	OnSubmit func(a *world.Account, msgs []sdk.Msg, res world.SubmitResult)
}

var baseTime = time.Unix(1_700_000_000, 0).UTC()

func NewSim(r *core.Run, cfg SimCfg) *Sim {
	if cfg.ChainID == "" {
		cfg.ChainID = "sim-paloma"
	}
	s := &Sim{R: r, T: r.Tape, Cfg: cfg, OnSubmit: cfg.OnSubmit}
	s.N = world.NewNode(nil, cfg.ChainID)
	var vspecs []world.ValidatorSpec
	for i := 0; i < cfg.NVals; i++ {
		var f func([]byte) bool
		if cfg.AddrFilter != nil {
			f = cfg.AddrFilter(i)
		}
		a := world.NewAccount(r.Seed, fmt.Sprintf("val%d", i), f)
		stake := math.NewInt(1_000_000_000)
		if i < len(cfg.Stakes) {
			stake = cfg.Stakes[i]
		}
		v := &Val{Acct: a, Stake: stake, Eth: map[string]*world.EthKey{}, Idx: i}
		s.Vals = append(s.Vals, v)
		vspecs = append(vspecs, world.ValidatorSpec{Acct: a, Cons: world.ConsKey(r.Seed, a.Name), Stake: stake})
	}
	var funded []world.FundedAccount
	for i := 0; i < cfg.NUsers; i++ {
		a := world.NewAccount(r.Seed, fmt.Sprintf("user%d", i), nil)
		s.Users = append(s.Users, a)
		coins := cfg.UserCoins
		if coins == nil {
			coins = sdk.NewCoins(sdk.NewCoin(app.BondDenom, math.NewInt(1_000_000_000_000)))
		}
		funded = append(funded, world.FundedAccount{Acct: a, Coins: coins})
	}
	funded = append(funded, cfg.ExtraAccounts...)
	s.Genesis = baseTime
	spec := &world.GenesisSpec{ChainID: cfg.ChainID, InitialHeight: cfg.InitialHeight, GenesisTime: s.Genesis,
		Validators: vspecs, Accounts: funded, VotingPeriod: cfg.VotingPeriod, Mutate: cfg.Mutate}
	s.N.Record = cfg.Record
	s.N.InitChain(spec)
	s.Now = s.Genesis
	// the first block makes the state queryable
	s.Block()
	return s
}

// Block produces one block with jittered time and seeded faults.
func (s *Sim) Block() *world.BlockResult {
	if s.Aborted {
		return nil
	}
	t := s.T
	// block interval: 1.2s..2.2s, occasionally a forward jump
	dt := time.Duration(1200+t.Intn(1001)) * time.Millisecond
	if s.ForceJump > 0 {
		dt = s.ForceJump
		s.ForceJump = 0
		s.R.Stats.Fault("clock_jump")
		s.R.Trace.Event("clock-jump", "%s (placed)", dt)
	} else if s.Cfg.JumpPerMille > 0 && t.Chance(uint64(s.Cfg.JumpPerMille), 1000) {
		switch t.Intn(4) {
		case 0:
			dt = time.Duration(1+t.Intn(120)) * time.Second
		case 1:
			dt = time.Duration(5+t.Intn(20)) * time.Minute
		case 2:
			dt = time.Duration(1+t.Intn(30)) * time.Hour
		default:
			dt = time.Duration(1+t.Intn(40)) * 24 * time.Hour
		}
		s.R.Stats.Fault("clock_jump")
		s.R.Trace.Event("clock-jump", "%s", dt)
	}
	s.Now = s.Now.Add(dt)
	opts := world.BlockOpts{Time: s.Now, ProposerIdx: t.Intn(8)}
	if s.Cfg.CrashPerMille > 0 && s.R.Blocks > 0 && t.Chance(uint64(s.Cfg.CrashPerMille), 1000) { // never before the first commit (a real node would re-run InitChain)
		opts.CrashBeforeCommit = true
		s.R.Stats.Fault("crash_before_commit")
		s.R.Trace.Event("crash-before-commit", "h=%d", s.N.Height+1)
	}
	br := s.N.ProduceBlock(opts)
	if br.Err != nil || br.Panic != "" {
		s.Aborted = true
		s.AbortWhy = fmt.Sprintf("block %d: err=%v panic=%s", br.Height, br.Err, br.Panic)
		s.Last = br
		s.R.Trace.Event("block-abort", "h=%d", br.Height)
		return br
	}
	if opts.CrashBeforeCommit && s.OnRestart != nil {
		s.OnRestart()
	}
	s.Last = br
	s.R.Blocks++
	s.R.SimSeconds = int64(s.Now.Sub(s.Genesis).Seconds())
	if s.Cfg.RestartPerMille > 0 && t.Chance(uint64(s.Cfg.RestartPerMille), 1000) {
		s.N.Restart()
		s.R.Stats.Fault("node_restart")
		s.R.Trace.Event("restart", "h=%d", s.N.Height)
		if s.OnRestart != nil {
			s.OnRestart()
		}
	}
	return br
}

// Ctx is a query context on the last committed state.
func (s *Sim) Ctx() sdk.Context { return s.N.QueryCtx() }

// Submit sends a single-signer tx and records it in the trace.
func (s *Sim) Submit(a *world.Account, msgs ...sdk.Msg) world.SubmitResult {
	res := s.N.Submit(a, msgs...)
	if s.OnSubmit != nil {
		s.OnSubmit(a, msgs, res)
	}
	return res
}

// Result returns the execution result of tx in the last block (nil if absent).
func (s *Sim) Result(tx []byte) *abci.ExecTxResult {
	if s.Last == nil {
		return nil
	}
	return world.TxResultIn(s.Last, tx)
}

// abortViolations turns a block production failure into C09 output: a C09
// violation if the checked property is C09, a note otherwise (rule 5 of DESIGN §3).
func (s *Sim) abortNote(prop string) {
	if s.Aborted {
		s.R.Note("C09", "block-abort", "%s", s.AbortWhy)
	}
}
