package props

import (
	"bytes"
	"fmt"
	"time"

	"cosmossdk.io/math"
	sdk "github.com/cosmos/cosmos-sdk/types"
	slashingtypes "github.com/cosmos/cosmos-sdk/x/slashing/types"
	stakingtypes "github.com/cosmos/cosmos-sdk/x/staking/types"
	valsettypes "github.com/palomachain/paloma/v2/x/valset/types"
	"golang.org/x/mod/semver"
	"verifsim/core"
)

func init() { Register("C12", c12) }

// Values taken from the property text: keep-alive lifetime, grace period, check cadence, sentence schedule.
const (
	c12TTL       = 2000
	c12Grace     = 30
	c12CheckFrom = 50
	c12CheckMod  = 10
)

var c12Schedule = []time.Duration{time.Minute, 5 * time.Minute, 15 * time.Minute, time.Hour, 24 * time.Hour}

type c12Val struct {
	v             *Val
	sending       bool  // pigeon running
	every         int64 // keep-alive cadence
	lastSent      int64
	version       string
	aliveUntil    int64 // from accepted keep-alives (0 = never)
	jailed        bool
	unjailedAt    int64 // height at which it was last first seen unjailed (grace start)
	lastSentence  time.Duration
	lastJailAt    time.Time
	jailedUntil   time.Time
	nJails        int
	pendingKA     [][]byte
	pendingUnjail [][]byte
}

func c12(r *core.Run) []*core.Violation {
	t := r.Tape
	long := t.Draw(8) == 7 // long runs cover TTL expiry
	nVals := 5 + t.Intn(4)
	var stakes []math.Int
	layout := t.Intn(4)
	for i := 0; i < nVals; i++ {
		base := int64(1_000_000_000)
		switch layout {
		case 1: // near-equal
			base += int64(t.Intn(1000))
		case 2: // one whale (> 25 %)
			if i == 0 {
				base *= int64(nVals)
			}
		case 3: // geometric-ish
			base = base * int64(1+i) / 2
			if base == 0 {
				base = 1_000_000
			}
		}
		stakes = append(stakes, math.NewInt(base))
	}
	// address byte patterns: one validator is forced to contain a chosen byte value; all 256 values cycle over a batch
	forced := byte(t.Draw(256))
	if t.Draw(4) == 0 {
		forced = []byte{0x2c, 0x00, 0x0a, 0x7c, 0xff, 0x2f, 0x3a, 0x22}[t.Intn(8)]
	}
	cfg := SimCfg{NVals: nVals, Stakes: stakes, NUsers: 0, JumpPerMille: 30, RestartPerMille: 5, CrashPerMille: 5,
		InitialHeight: []int64{1, 1, 37, 46}[t.Intn(4)],
		AddrFilter: func(i int) func([]byte) bool {
			if i != 1 {
				return nil
			}
			return func(a []byte) bool { return bytes.IndexByte(a, forced) >= 0 }
		}}
	if long {
		cfg.JumpPerMille = 2
	}
	s := NewSim(r, cfg)
	gov := NewGov(s)
	h0 := s.N.Height // first block
	vals := make([]*c12Val, nVals)
	minVersion := "v1.11.3" // documented default; verified against the chain below
	for i, v := range s.Vals {
		cv := &c12Val{v: v, sending: t.Draw(4) != 0, every: int64(20 + t.Intn(150)), version: "v2.4.0", unjailedAt: h0}
		if t.Draw(12) == 0 {
			cv.version = "v1.0.0" // out-of-date relayer
		}
		vals[i] = cv
	}
	forget := false
	s.OnRestart = func() {
		for _, cv := range vals {
			s.N.SyncAccount(cv.v.Acct)
		}
		// what is still pending after this block's results have been processed died with the mempool
		forget = true
	}
	hasByte := func(cv *c12Val) bool { return bytes.IndexByte(cv.v.Acct.Addr, 0x2c) >= 0 }
	var viols []*core.Violation
	nBlocks := 90 + t.Intn(120)
	if long {
		nBlocks = 2080 + t.Intn(200)
	}
	bumped := false
	for b := 0; b < nBlocks && !s.Aborted && len(viols) == 0; b++ {
		h := s.N.Height
		// relayers
		for _, cv := range vals {
			if cv.sending && t.Chance(1, 200) {
				cv.sending = false // crash / stall
				r.Stats.Fault("pigeon_crash")
				r.Trace.Event("pigeon-crash", "%s h=%d", cv.v.Acct.Name, h)
			} else if !cv.sending && t.Chance(1, 120) {
				cv.sending = true
				r.Stats.Fault("pigeon_restart")
				r.Trace.Event("pigeon-restart", "%s h=%d", cv.v.Acct.Name, h)
			}
			if cv.sending && (cv.lastSent == 0 || h-cv.lastSent >= cv.every) {
				res := s.Submit(cv.v.Acct, &valsettypes.MsgKeepAlive{Metadata: meta(cv.v.Acct), PigeonVersion: cv.version})
				if res.Accepted() {
					cv.lastSent = h
					cv.pendingKA = append(cv.pendingKA, res.Tx)
				}
			}
			// unjail when the sentence is over
			// (more eagerly when the next block is a liveness-check block: unjailing and the sweep then meet in one block)
			if cv.jailed && s.Now.After(cv.jailedUntil) && (t.Chance(1, 3) || ((h+1)%10 == 0 && t.Chance(2, 3))) {
				if res := s.Submit(cv.v.Acct, slashingtypes.NewMsgUnjail(cv.v.Acct.ValBech32())); res.Accepted() {
					cv.pendingUnjail = append(cv.pendingUnjail, res.Tx)
				}
			}
		}
		// governance bumps (or tries to lower) the minimum relayer version
		if !gov.Busy() && t.Chance(1, 150) {
			nv := "v2.0.0"
			if bumped || t.Draw(3) == 0 {
				nv = "v1.0.1" // attempt to lower: must not take effect
			}
			target := uint64(0)
			if t.Draw(2) == 1 {
				target = uint64(h + 5 + int64(t.Intn(20)))
			}
			gov.Propose("pigeon-req "+nv, nil, Legacy(&valsettypes.SetPigeonRequirementsProposal{Title: "pigeon-req " + nv, Description: "d", MinVersion: nv, TargetBlockHeight: target}))
			if nv == "v2.0.0" {
				bumped = true
			}
		}
		gov.Tick()
		prevTime := s.Now
		br := s.Block()
		if s.Aborted {
			break
		}
		_ = prevTime
		hh := br.Height
		ctx := s.Ctx()
		req, err := s.N.App.ValsetKeeper.PigeonRequirements(ctx)
		if err != nil {
			core.Harnessf("PigeonRequirements: %v", err)
		}
		if semver.Compare(req.MinVersion, minVersion) < 0 {
			viols = append(viols, vio("C12", "min-version-decreased", hh, nil, fmt.Sprintf("minimum relayer version went from %s to %s", minVersion, req.MinVersion)))
		}
		oldMin := minVersion
		minVersion = req.MinVersion
		// keep-alive results
		for _, cv := range vals {
			var rest [][]byte
			for _, tx := range cv.pendingKA {
				res := s.Result(tx)
				if res == nil {
					rest = append(rest, tx)
					continue
				}
				ok := res.Code == 0
				r.Trace.Event("keepalive", "%s ok=%v h=%d", cv.v.Acct.Name, ok, hh)
				if ok {
					r.Stats.Probe("keepalive_ok")
					// the version in force when the block started is what the handler saw (BeginBlock applies scheduled bumps first)
					if semver.Compare(cv.version, oldMin) < 0 && semver.Compare(cv.version, minVersion) < 0 {
						viols = append(viols, vio("C12", "old-version-accepted", hh, nil, fmt.Sprintf("keep-alive with version %s accepted while minimum is %s", cv.version, minVersion)))
					}
					cv.aliveUntil = hh + c12TTL
				} else {
					r.Stats.Probe("keepalive_refused")
				}
			}
			cv.pendingKA = rest
			if forget {
				cv.pendingKA = nil
			}
		}
		// a validator whose unjail transaction succeeded in this block has just become unjailed: the grace period protects it
		// from the liveness check of this very block
		for _, cv := range vals {
			var rest [][]byte
			for _, tx := range cv.pendingUnjail {
				res := s.Result(tx)
				if res == nil {
					rest = append(rest, tx)
					continue
				}
				if res.Code != 0 {
					continue
				}
				r.Stats.Probe("unjail_tx_ok")
				if hh > c12CheckFrom && hh%c12CheckMod == 0 {
					r.Stats.Probe("unjail_tx_ok_in_check_block")
				}
				sv, err := s.N.App.StakingKeeper.GetValidator(ctx, cv.v.Acct.ValAddr())
				if err == nil && sv.Jailed {
					reason := ""
					if jr, err := s.N.App.ValsetKeeper.GetValidatorJailReason(ctx, &valsettypes.QueryGetValidatorJailReasonRequest{ValAddress: cv.v.Acct.ValAddr()}); err == nil {
						reason = jr.Reason
					}
					if reason == valsettypes.JailReasonPigeonInactive {
						viols = append(viols, vio("C12", "jailed-within-grace", hh, nil, fmt.Sprintf("%s unjailed by a successful transaction in block %d and was jailed for inactivity again by the liveness check of the same block (no grace period)", cv.v.Acct.Name, hh)))
					}
				}
			}
			cv.pendingUnjail = rest
			if forget {
				cv.pendingUnjail = nil
			}
		}
		forget = false
		// observe jail flags
		type obs struct {
			jailed bool
			status stakingtypes.BondStatus
			tokens math.Int
		}
		state := make([]obs, nVals)
		for i, cv := range vals {
			sv, err := s.N.App.StakingKeeper.GetValidator(ctx, cv.v.Acct.ValAddr())
			if err != nil {
				core.Harnessf("validator lookup: %v", err)
			}
			state[i] = obs{sv.Jailed, sv.Status, sv.Tokens}
		}
		isCheck := hh > c12CheckFrom && hh%c12CheckMod == 0
		for i, cv := range vals {
			now := state[i]
			if now.jailed && !cv.jailed {
				// newly jailed: why?
				res, err := s.N.App.ValsetKeeper.GetValidatorJailReason(ctx, &valsettypes.QueryGetValidatorJailReasonRequest{ValAddress: cv.v.Acct.ValAddr()})
				reason := ""
				if err == nil {
					reason = res.Reason
				}
				r.Trace.Event("jailed", "%s h=%d reason=%q", cv.v.Acct.Name, hh, reason)
				r.Stats.Probe("jailed")
				if reason == valsettypes.JailReasonPigeonInactive {
					r.Stats.Probe("jailed_inactive")
					if cv.aliveUntil > hh {
						viols = append(viols, vio("C12", "jailed-while-alive", hh, nil, fmt.Sprintf("%s jailed for inactivity at height %d although its keep-alive is valid until %d", cv.v.Acct.Name, hh, cv.aliveUntil)))
					}
					if !isCheck {
						r.Note("C12", "jail-outside-check", "%s jailed for inactivity at non-check height %d", cv.v.Acct.Name, hh)
					}
				}
				// sentence schedule
				cons, _ := s.N.App.StakingKeeper.GetValidator(ctx, cv.v.Acct.ValAddr())
				ca, _ := cons.GetConsAddr()
				si, err := s.N.App.SlashingKeeper.GetValidatorSigningInfo(ctx, sdk.ConsAddress(ca))
				if err == nil && reason != "" && reason != "validator was offline" {
					sentence := si.JailedUntil.Sub(br.Time)
					inSchedule := false
					for _, d := range c12Schedule {
						if d == sentence {
							inSchedule = true
						}
					}
					if !inSchedule {
						viols = append(viols, vio("C12", "sentence-off-schedule", hh, nil, fmt.Sprintf("%s sentenced to %s", cv.v.Acct.Name, sentence)))
					}
					if cv.nJails > 0 && br.Time.Sub(cv.lastJailAt) < 30*time.Minute {
						// repeated jailing within the reset window: must be longer than the previous one (until the cap)
						if sentence <= cv.lastSentence && cv.lastSentence < c12Schedule[len(c12Schedule)-1] {
							viols = append(viols, vio("C12", "sentence-not-escalated", hh, nil, fmt.Sprintf("%s jailed again %s after the previous jailing: sentence %s after %s", cv.v.Acct.Name, br.Time.Sub(cv.lastJailAt), sentence, cv.lastSentence)))
						}
						r.Stats.Probe("repeat_jailing")
					}
					cv.lastSentence = sentence
					cv.lastJailAt = br.Time
					cv.jailedUntil = si.JailedUntil
					cv.nJails++
				} else if err == nil {
					cv.jailedUntil = si.JailedUntil
				}
				cv.jailed = true
			} else if !now.jailed && cv.jailed {
				cv.jailed = false
				cv.unjailedAt = hh // first seen unjailed at the end of this block
				r.Trace.Event("unjailed", "%s h=%d", cv.v.Acct.Name, hh)
				r.Stats.Probe("unjailed")
			}
		}
		// bounded liveness at check heights
		if isCheck {
			// the smallest possible set the protection rule can measure against: validators that stay unjailed
			aliveTokens := math.ZeroInt()
			alivePower := int64(0)
			aliveCount := 0
			for i, cv := range vals {
				if state[i].jailed || state[i].status != stakingtypes.Bonded {
					continue
				}
				aliveTokens = aliveTokens.Add(state[i].tokens)
				alivePower += state[i].tokens.Quo(sdk.DefaultPowerReduction).Int64()
				aliveCount++
				_ = cv
			}
			for i, cv := range vals {
				if state[i].jailed || cv.jailed {
					continue
				}
				if !(state[i].status == stakingtypes.Bonded || state[i].status == stakingtypes.Unbonding) {
					continue
				}
				expired := cv.aliveUntil == 0 || cv.aliveUntil <= hh
				if !expired {
					continue
				}
				if hh-cv.unjailedAt <= c12Grace {
					continue // grace period
				}
				// expired, outside grace, still unjailed after the check: only the protection rules may explain it
				tok := state[i].tokens
				pow := tok.Quo(sdk.DefaultPowerReduction).Int64()
				// it stayed unjailed, so it is part of the "alive" sums above
				shareTok := float64(tok.Int64()) / float64(aliveTokens.Int64())
				sharePow := float64(pow) / float64(alivePower)
				if aliveCount <= 1 {
					continue // last active validator
				}
				if shareTok > 0.2499 || sharePow > 0.2499 {
					r.Stats.Probe("protected_by_share")
					continue
				}
				facts := map[string]string{"addr_has_0x2c": fmt.Sprint(hasByte(cv))}
				viols = append(viols, vio("C12", "not-jailed-at-liveness-check", hh, facts,
					fmt.Sprintf("%s (operator %x) is unjailed, %s, its keep-alive %s, it was first seen unjailed at height %d (grace over), it holds %.1f%% of the remaining bonded stake and other validators are active, yet the liveness check at height %d did not jail it",
						cv.v.Acct.Name, []byte(cv.v.Acct.Addr), state[i].status, map[bool]string{true: "was never sent", false: fmt.Sprintf("expired at %d", cv.aliveUntil)}[cv.aliveUntil == 0], cv.unjailedAt, shareTok*100, hh)))
				break
			}
			r.Stats.Probe("liveness_checks")
		}
	}
	s.abortNote("C12")
	if r.Stats.Probes["jailed_inactive"] > 0 {
		r.Stats.Probe("target")
	}
	nWith := 0
	for _, cv := range vals {
		if hasByte(cv) {
			nWith++
		}
	}
	r.Stats.ProbeN("validators_with_0x2c", int64(nWith))
	r.Stats.Probe(fmt.Sprintf("forced_byte_%02x", forced))
	r.Sample = []string{fmt.Sprintf("%d validators (layout %d, forced byte 0x%02x, %d with 0x2c), %d blocks from height %d, long=%v: jailed for inactivity %d, unjailed %d, repeat jailings %d, keep-alives ok %d refused %d",
		nVals, layout, forced, nWith, r.Blocks, h0, long, r.Stats.Probes["jailed_inactive"], r.Stats.Probes["unjailed"], r.Stats.Probes["repeat_jailing"], r.Stats.Probes["keepalive_ok"], r.Stats.Probes["keepalive_refused"])}
	return viols
}
