package props

import (
	"errors"
	"fmt"
	"sort"
	"time"

	"cosmossdk.io/math"
	sdk "github.com/cosmos/cosmos-sdk/types"
	sdkmempool "github.com/cosmos/cosmos-sdk/types/mempool"
	authsigning "github.com/cosmos/cosmos-sdk/x/auth/signing"
	banktypes "github.com/cosmos/cosmos-sdk/x/bank/types"
	"github.com/palomachain/paloma/v2/app"
	palomamempool "github.com/palomachain/paloma/v2/app/mempool"
	consensustypes "github.com/palomachain/paloma/v2/x/consensus/types"
	evmtypes "github.com/palomachain/paloma/v2/x/evm/types"
	schedulertypes "github.com/palomachain/paloma/v2/x/scheduler/types"
	valsettypes "github.com/palomachain/paloma/v2/x/valset/types"
	"verifsim/core"
	"verifsim/world"
)

func init() { Register("C19", c19) }

// priority classes as worded by the property: consensus > scheduler > evm ("bridge-chain") > valset > others
const (
	clsOther = iota
	clsValset
	clsEvm
	clsSched
	clsCons
)

var clsNames = []string{"other", "valset", "evm", "scheduler", "consensus"}

func meta(a *world.Account) valsettypes.MsgMetadata {
	return valsettypes.MsgMetadata{Creator: a.Bech32(), Signers: []string{a.Bech32()}}
}

// classMsg returns a message whose type url belongs to the class. variant picks among several types of the class.
func classMsg(cls int, a *world.Account, variant int) sdk.Msg {
	switch cls {
	case clsCons:
		switch variant % 3 {
		case 0:
			return &consensustypes.MsgAddMessagesSignatures{Metadata: meta(a)}
		case 1:
			return &consensustypes.MsgSetErrorData{Metadata: meta(a), MessageID: 1, QueueTypeName: "q", Data: []byte{1}}
		default:
			return &consensustypes.MsgAddMessageGasEstimates{Metadata: meta(a)}
		}
	case clsSched:
		if variant%2 == 0 {
			return &schedulertypes.MsgExecuteJob{Metadata: meta(a), JobID: "nojob"}
		}
		return &schedulertypes.MsgCreateJob{Metadata: meta(a), Job: &schedulertypes.Job{ID: "j"}}
	case clsEvm:
		if variant%2 == 0 {
			return &evmtypes.MsgRemoveUserSmartContractRequest{Metadata: meta(a), Id: 1}
		}
		return &evmtypes.MsgDeployUserSmartContractRequest{Metadata: meta(a), Id: 1, TargetChain: "x"}
	case clsValset:
		if variant%2 == 0 {
			return &valsettypes.MsgKeepAlive{Metadata: meta(a), PigeonVersion: "v9.9.9"}
		}
		return &valsettypes.MsgAddExternalChainInfoForValidator{Metadata: meta(a)}
	default:
		return &banktypes.MsgSend{FromAddress: a.Bech32(), ToAddress: a.Bech32(), Amount: sdk.NewCoins(sdk.NewCoin(app.BondDenom, math.NewInt(1)))}
	}
}

type mpKey struct {
	sender string
	seq    uint64
}

type mpEntry struct {
	key   mpKey
	class int
	tx    sdk.Tx
	raw   string // for whole-system mode
}

func txKey(tx sdk.Tx) (mpKey, error) {
	sigs, err := tx.(authsigning.SigVerifiableTx).GetSignaturesV2()
	if err != nil || len(sigs) == 0 {
		return mpKey{}, fmt.Errorf("no sigs: %v", err)
	}
	return mpKey{sdk.AccAddress(sigs[0].PubKey.Address()).String(), sigs[0].Sequence}, nil
}

// checkWalk validates one Select walk against the pending-set model.
func checkWalk(r *core.Run, step int, pending map[mpKey]*mpEntry, yielded []sdk.Tx, count int, overrun bool) *core.Violation {
	if overrun {
		return vio("C19", "select-does-not-terminate", 0, nil, fmt.Sprintf("op %d: Select walk yielded more than 2*|pending|+8 entries (|pending|=%d)", step, len(pending)))
	}
	if count != len(pending) {
		return vio("C19", "count-mismatch", 0, nil, fmt.Sprintf("op %d: CountTx=%d but %d txs pending", step, count, len(pending)))
	}
	seen := map[mpKey]bool{}
	lastSeq := map[string]uint64{}
	hasLast := map[string]bool{}
	// remaining per sender sorted by seq
	rem := map[string][]*mpEntry{}
	for _, e := range pending {
		rem[e.key.sender] = append(rem[e.key.sender], e)
	}
	for _, s := range core.SortedKeys(rem) {
		l := rem[s]
		sort.Slice(l, func(i, j int) bool { return l[i].key.seq < l[j].key.seq })
	}
	for idx, tx := range yielded {
		k, err := txKey(tx)
		if err != nil {
			core.Harnessf("yielded tx without signature: %v", err)
		}
		e, ok := pending[k]
		if !ok {
			return vio("C19", "yielded-not-pending", 0, nil, fmt.Sprintf("op %d: Select yielded (%s,%d) at position %d which is not pending (removed or never inserted)", step, k.sender[:12], k.seq, idx))
		}
		if e.tx != tx {
			return vio("C19", "yielded-wrong-tx", 0, nil, fmt.Sprintf("op %d: Select yielded a different tx object for (%s,%d)", step, k.sender[:12], k.seq))
		}
		if seen[k] {
			return vio("C19", "yielded-twice", 0, nil, fmt.Sprintf("op %d: Select yielded (%s,%d) twice", step, k.sender[:12], k.seq))
		}
		seen[k] = true
		if hasLast[k.sender] && k.seq <= lastSeq[k.sender] {
			return vio("C19", "sender-order", 0, nil, fmt.Sprintf("op %d: sender %s yielded seq %d after %d", step, k.sender[:12], k.seq, lastSeq[k.sender]))
		}
		if len(rem[k.sender]) == 0 || rem[k.sender][0].key != k {
			return vio("C19", "sender-order", 0, nil, fmt.Sprintf("op %d: sender %s yielded seq %d while lower seq %d still pending", step, k.sender[:12], k.seq, rem[k.sender][0].key.seq))
		}
		// class rule against every other sender's next tx
		for _, s := range core.SortedKeys(rem) {
			if s == k.sender || len(rem[s]) == 0 {
				continue
			}
			o := rem[s][0]
			if o.class > e.class {
				return vio("C19", "priority-class", 0, map[string]string{"yielded": clsNames[e.class], "waiting": clsNames[o.class]},
					fmt.Sprintf("op %d: position %d yielded (%s,%d) of class %s while sender %s's next tx (seq %d) of higher class %s was available",
						step, idx, k.sender[:12], k.seq, clsNames[e.class], s[:12], o.key.seq, clsNames[o.class]))
			}
		}
		hasLast[k.sender] = true
		lastSeq[k.sender] = k.seq
		rem[k.sender] = rem[k.sender][1:]
	}
	if len(seen) != len(pending) {
		var missing []string
		for k := range pending {
			if !seen[k] {
				missing = append(missing, fmt.Sprintf("(%s,%d)", k.sender[:12], k.seq))
			}
		}
		sort.Strings(missing)
		return vio("C19", "pending-not-yielded", 0, nil, fmt.Sprintf("op %d: Select yielded %d of %d pending txs; missing %v", step, len(seen), len(pending), missing))
	}
	return nil
}

func c19(r *core.Run) []*core.Violation {
	t := r.Tape
	// 1 in 8 runs exercises the whole node (CheckTx / PrepareProposal / restarts); the rest drive the pool directly.
	if t.Draw(8) == 7 {
		r.Profile = "whole-system"
		return c19System(r)
	}
	r.Profile = "direct"
	return c19Direct(r)
}

func c19Direct(r *core.Run) []*core.Violation {
	t := r.Tape
	mp := palomamempool.DefaultPriorityMempool()
	nSenders := 1 + t.Intn(5)
	senders := make([]*world.Account, nSenders)
	for i := range senders {
		senders[i] = world.NewAccount(r.Seed, fmt.Sprintf("s%d", i), nil)
	}
	nOps := 4 + t.Intn(70)
	pending := map[mpKey]*mpEntry{}
	var removedTxs []sdk.Tx
	ctx := sdk.Context{}.WithPriority(42)
	nextSeq := make([]uint64, nSenders)
	selects := 0
	for op := 0; op < nOps; op++ {
		kind := t.Draw(10)
		switch {
		case kind < 5: // insert
			si := t.Intn(nSenders)
			var seq uint64
			if t.Draw(4) == 3 {
				// arbitrary sequence number (gaps, below current), must be unique among pending
				seq = uint64(t.Intn(12))
			} else {
				seq = nextSeq[si]
			}
			k := mpKey{senders[si].Bech32(), seq}
			if _, dup := pending[k]; dup {
				continue
			}
			cls := t.Intn(5)
			var tx sdk.Tx
			class := cls
			if t.Draw(6) == 5 {
				// multi-message txs are never in a named class
				tx = unsignedTx(senders[si], seq, classMsg(cls, senders[si], t.Intn(3)), classMsg(t.Intn(5), senders[si], 0))
				class = clsOther
				r.Stats.Probe("multi_msg_tx")
			} else {
				tx = unsignedTx(senders[si], seq, classMsg(cls, senders[si], t.Intn(3)))
			}
			if err := mp.Insert(ctx, tx); err != nil {
				return []*core.Violation{vio("C19", "insert-failed", 0, nil, fmt.Sprintf("op %d: Insert(%s,%d) failed: %v", op, k.sender[:12], seq, err))}
			}
			pending[k] = &mpEntry{key: k, class: class, tx: tx}
			if seq >= nextSeq[si] {
				nextSeq[si] = seq + 1
			}
			r.Trace.Event("insert", "s%d seq=%d %s", si, seq, clsNames[class])
		case kind < 8: // remove
			if len(pending) == 0 || t.Draw(8) == 7 {
				// remove something that is not pending
				if len(removedTxs) > 0 {
					tx := removedTxs[t.Intn(len(removedTxs))]
					k, _ := txKey(tx)
					if _, again := pending[k]; again {
						continue // same (sender,seq) was re-inserted with another tx; skip
					}
					err := mp.Remove(tx)
					if !errors.Is(err, sdkmempool.ErrTxNotFound) {
						return []*core.Violation{vio("C19", "remove-absent", 0, nil, fmt.Sprintf("op %d: removing a non-pending tx returned %v", op, err))}
					}
					r.Stats.Probe("remove_absent")
					r.Trace.Event("remove-absent", "")
				}
				continue
			}
			keys := make([]mpKey, 0, len(pending))
			for k := range pending {
				keys = append(keys, k)
			}
			sort.Slice(keys, func(i, j int) bool {
				if keys[i].sender != keys[j].sender {
					return keys[i].sender < keys[j].sender
				}
				return keys[i].seq < keys[j].seq
			})
			k := keys[t.Intn(len(keys))]
			e := pending[k]
			if err := mp.Remove(e.tx); err != nil {
				return []*core.Violation{vio("C19", "remove-failed", 0, nil, fmt.Sprintf("op %d: Remove(%s,%d) failed: %v", op, k.sender[:12], k.seq, err))}
			}
			delete(pending, k)
			removedTxs = append(removedTxs, e.tx)
			r.Trace.Event("remove", "seq=%d", k.seq)
		default: // select (sometimes twice in a row)
			reps := 1 + t.Intn(2)
			for rep := 0; rep < reps; rep++ {
				if v := c19Walk(r, op, mp, pending); v != nil {
					return []*core.Violation{v}
				}
				selects++
			}
		}
	}
	// always end with a select
	if v := c19Walk(r, nOps, mp, pending); v != nil {
		return []*core.Violation{v}
	}
	r.Stats.ProbeN("select_walks", int64(selects+1))
	if len(pending) >= 2 {
		r.Stats.Probe("target")
	}
	r.Sample = []string{fmt.Sprintf("direct: %d senders, %d ops, %d pending at end", nSenders, nOps, len(pending))}
	return nil
}

func c19Walk(r *core.Run, op int, mp *palomamempool.PriorityNonceMempool[int64], pending map[mpKey]*mpEntry) *core.Violation {
	var yielded []sdk.Tx
	overrun := false
	limit := 2*len(pending) + 8
	var panicked any
	func() {
		defer func() { panicked = recover() }()
		for it := mp.Select(sdk.Context{}, nil); it != nil; it = it.Next() {
			yielded = append(yielded, it.Tx())
			if len(yielded) > limit {
				overrun = true
				break
			}
		}
	}()
	if panicked != nil {
		return vio("C19", "select-panic", 0, nil, fmt.Sprintf("op %d: Select walk panicked: %v", op, panicked))
	}
	r.Trace.Event("select", "n=%d", len(yielded))
	return checkWalk(r, op, pending, yielded, mp.CountTx(), overrun)
}

// c19System checks the same invariants on what PrepareProposal returns on a
// running node while the transport duplicates, reorders and drops and the
// node restarts.
func c19System(r *core.Run) []*core.Violation {
	t := r.Tape
	n := world.NewNode(nil, "sim-c19")
	nUsers := 2 + t.Intn(4)
	var users []*world.Account
	var funded []world.FundedAccount
	for i := 0; i < nUsers; i++ {
		a := world.NewAccount(r.Seed, fmt.Sprintf("u%d", i), nil)
		users = append(users, a)
		funded = append(funded, world.FundedAccount{Acct: a, Coins: sdk.NewCoins(sdk.NewCoin(app.BondDenom, math.NewInt(1_000_000)))})
	}
	val := world.NewAccount(r.Seed, "val0", nil)
	spec := &world.GenesisSpec{ChainID: n.ChainID, GenesisTime: time.Unix(1_700_000_000, 0).UTC(),
		Validators: []world.ValidatorSpec{{Acct: val, Cons: world.ConsKey(r.Seed, "val0"), Stake: math.NewInt(1_000_000_000)}},
		Accounts:   funded}
	n.InitChain(spec)
	tm := spec.GenesisTime.Add(time.Second)
	if br := n.ProduceBlock(world.BlockOpts{Time: tm}); br.Err != nil || br.Panic != "" {
		core.Harnessf("first block failed: %v %s", br.Err, br.Panic)
	}
	nBlocks := 4 + t.Intn(12)
	// model of the app mempool: accepted by CheckTx and not yet included / dropped
	pending := map[mpKey]*mpEntry{}
	byRaw := map[string]*mpEntry{}
	type delayed struct {
		raw []byte
		e   *mpEntry
	}
	var inflight []delayed
	for b := 0; b < nBlocks; b++ {
		// clients create txs
		nNew := t.Intn(6)
		for i := 0; i < nNew; i++ {
			u := users[t.Intn(nUsers)]
			cls := t.Intn(5)
			raw, err := n.BuildTx([]*world.Account{u}, nil, classMsg(cls, u, t.Intn(3)))
			if err != nil {
				core.Harnessf("build tx: %v", err)
			}
			e := &mpEntry{key: mpKey{u.Bech32(), u.Seq}, class: cls, raw: string(raw)}
			u.Seq++ // client optimistically advances
			inflight = append(inflight, delayed{raw, e})
			if t.Chance(1, 8) { // duplication
				inflight = append(inflight, delayed{raw, e})
				r.Stats.Fault("tx_duplicate")
			}
		}
		// transport: reorder, drop, delay
		if len(inflight) > 1 && t.Chance(1, 3) {
			i, j := t.Intn(len(inflight)), t.Intn(len(inflight))
			inflight[i], inflight[j] = inflight[j], inflight[i]
			r.Stats.Fault("tx_reorder")
		}
		var keep []delayed
		for _, d := range inflight {
			if t.Chance(1, 12) {
				r.Stats.Fault("tx_drop")
				continue
			}
			if t.Chance(1, 8) {
				keep = append(keep, d)
				r.Stats.Fault("tx_delay")
				continue
			}
			res, err := n.CheckTx(d.raw)
			if err == nil && res.Code == 0 {
				if _, dup := pending[d.e.key]; dup {
					return []*core.Violation{vio("C19", "admission-duplicate", n.Height, nil, fmt.Sprintf("CheckTx admitted a second tx for (%s,%d)", d.e.key.sender[:12], d.e.key.seq))}
				}
				pending[d.e.key] = d.e
				byRaw[d.e.raw] = d.e
				r.Trace.Event("admit", "seq=%d %s", d.e.key.seq, clsNames[d.e.class])
			} else {
				r.Trace.Event("reject", "seq=%d", d.e.key.seq)
			}
		}
		inflight = keep
		if t.Chance(1, 10) {
			// crash after a CheckTx batch: mempool content is lost
			n.Restart()
			pending = map[mpKey]*mpEntry{}
			byRaw = map[string]*mpEntry{}
			for _, u := range users {
				n.SyncAccount(u)
			}
			inflight = nil
			r.Stats.Fault("node_restart")
			r.Trace.Event("restart", "")
		}
		tm = tm.Add(1600 * time.Millisecond)
		cnt := n.App.Mempool().CountTx()
		br := n.ProduceBlock(world.BlockOpts{Time: tm})
		if br.Err != nil || br.Panic != "" {
			core.Harnessf("block failed: %v %s", br.Err, br.Panic)
		}
		// oracle on the proposal
		var yielded []sdk.Tx
		yPending := map[mpKey]*mpEntry{}
		for _, raw := range br.Txs {
			e, ok := byRaw[string(raw)]
			if !ok {
				return []*core.Violation{vio("C19", "yielded-not-pending", br.Height, nil, "proposal contains a tx that was never admitted or already included")}
			}
			tx, err := n.App.TxConfig().TxDecoder()(raw)
			if err != nil {
				core.Harnessf("decode: %v", err)
			}
			e.tx = tx
			yielded = append(yielded, tx)
			yPending[e.key] = e
		}
		// every pending tx has consecutive sequences here, so all of them must be proposed
		for k, e := range pending {
			if e.tx == nil {
				_ = k
			}
		}
		full := map[mpKey]*mpEntry{}
		for k, e := range pending {
			full[k] = e
		}
		// the proposal must be a walk over the complete pending set
		for k, e := range full {
			if y, ok := yPending[k]; ok {
				e.tx = y.tx
			}
		}
		if v := checkWalkSystem(r, int(br.Height), full, yielded, cnt); v != nil {
			v.Block = br.Height
			return []*core.Violation{v}
		}
		for _, raw := range br.Txs {
			e := byRaw[string(raw)]
			delete(pending, e.key)
			delete(byRaw, string(raw))
		}
		if got := n.App.Mempool().CountTx(); got != len(pending) {
			return []*core.Violation{vio("C19", "count-mismatch", br.Height, nil, fmt.Sprintf("after block: CountTx=%d, model pending=%d", got, len(pending)))}
		}
		r.Stats.ProbeN("proposed_txs", int64(len(br.Txs)))
		r.Blocks++
	}
	r.SimSeconds = int64(tm.Sub(spec.GenesisTime).Seconds())
	if r.Stats.Probes["proposed_txs"] >= 2 {
		r.Stats.Probe("target")
	}
	r.Sample = []string{fmt.Sprintf("whole-system: %d users, %d blocks, %d txs proposed", nUsers, nBlocks, r.Stats.Probes["proposed_txs"])}
	return nil
}

func checkWalkSystem(r *core.Run, step int, pending map[mpKey]*mpEntry, yielded []sdk.Tx, count int) *core.Violation {
	// tx objects differ (decoded copies) so compare by key only: give every entry the yielded object
	return checkWalk(r, step, pending, yielded, count, false)
}
