package props

import (
	"fmt"
	"math/big"
	"sort"
	"strconv"
	"strings"

	"cosmossdk.io/math"
	abci "github.com/cometbft/cometbft/abci/types"
	sdk "github.com/cosmos/cosmos-sdk/types"
	authtypes "github.com/cosmos/cosmos-sdk/x/auth/types"
	banktypes "github.com/cosmos/cosmos-sdk/x/bank/types"
	"github.com/ethereum/go-ethereum/common"
	ethcrypto "github.com/ethereum/go-ethereum/crypto"
	skywaytypes "github.com/palomachain/paloma/v2/x/skyway/types"
	tftypes "github.com/palomachain/paloma/v2/x/tokenfactory/types"
	"verifsim/core"
	"verifsim/evmsim"
	"verifsim/world"
)

// Token is a bridged factory token.
type Token struct {
	Denom string
	Admin *world.Account
	// Chain -> ERC20 contract
	ERC20 map[string]common.Address
}

// Transfer is the model's record of an accepted SendToRemote.
type Transfer struct {
	ID      uint64
	Sender  string
	Denom   string
	Chain   string
	Amount  math.Int
	Tax     math.Int
	State   string // pool | batch | refunded | burned
	Batch   uint64
	Created int64
}

// SkyWorld is a bootstrapped bridge with tokens, users and the per-denom ledger model.
type SkyWorld struct {
	batchPrev map[string]*batchSnap
	// OpenBatches is the number of open batches seen at the last block boundary
	OpenBatches int
	*Bridge
	Gov      *Gov
	Tokens   []*Token
	EvmUsers []*world.EthKey

	// model
	Transfers map[uint64]*Transfer
	// expected user balances per denom (bech32 -> denom -> amount) for tracked users
	Bal map[string]map[string]math.Int
	// expected supply per denom
	Supply map[string]math.Int
	// batch membership seen at the previous boundary: key contract/nonce -> ids
	lastBatches map[string][]uint64
	batchChain  map[string]string
	// attestations already seen observed: chain/nonce/hash
	seenObserved map[string]bool
	// cancels that succeeded: id -> true
	cancelled map[uint64]bool
	// pending client ops of this block
	pendingOps []*skyOp
	Viols      []*core.Violation
	// deposits the model saw emitted on the remote chain: chain/nonce -> event
	FaultThisBlock bool
	// FaultMethod is the collaborator method in which an injected fault fired in this block ("" if none)
	FaultMethod      string
	forget           bool
	taxSet, limitSet bool
	prop             string
}

type skyOp struct {
	kind   string
	user   *world.Account
	denom  string
	chain  string
	amount math.Int
	id     uint64
	tx     []byte
}

func moduleAddr(name string) sdk.AccAddress { return authtypes.NewModuleAddress(name) }

// NewSkyWorld builds the bridge, bootstraps it and sets tokens up.
func NewSkyWorld(r *core.Run, cfg BridgeCfg, nTokens int, prop string) *SkyWorld {
	// no node faults while the world is being set up (they start with the workload)
	restart, crash, jump := cfg.RestartPerMille, cfg.CrashPerMille, cfg.JumpPerMille
	cfg.RestartPerMille, cfg.CrashPerMille, cfg.JumpPerMille = 0, 0, 0
	b := NewBridge(r, cfg)
	defer func() {
		b.Sim.Cfg.RestartPerMille, b.Sim.Cfg.CrashPerMille, b.Sim.Cfg.JumpPerMille = restart, crash, jump
	}()
	w := &SkyWorld{Bridge: b, Gov: NewGov(b.Sim), Transfers: map[uint64]*Transfer{}, Bal: map[string]map[string]math.Int{},
		Supply: map[string]math.Int{}, lastBatches: map[string][]uint64{}, batchChain: map[string]string{}, seenObserved: map[string]bool{},
		cancelled: map[uint64]bool{}, prop: prop}
	if !b.Bootstrap(160) {
		if b.Aborted {
			return w
		}
		core.Harnessf("bridge bootstrap did not complete within 160 blocks (height %d)", b.N.Height)
	}
	admin := b.Users[0]
	for i := 0; i < nTokens; i++ {
		sub := fmt.Sprintf("tok%d", i)
		tok := &Token{Denom: "factory/" + admin.Bech32() + "/" + sub, Admin: admin, ERC20: map[string]common.Address{}}
		w.Tokens = append(w.Tokens, tok)
		b.Submit(admin, &tftypes.MsgCreateDenom{Metadata: meta(admin), Subdenom: sub})
	}
	w.StepQuiet()
	total := math.NewIntFromBigInt(new(big.Int).Exp(big.NewInt(10), big.NewInt(30), nil))
	for _, tok := range w.Tokens {
		b.Submit(admin, &tftypes.MsgMint{Metadata: meta(admin), Amount: sdk.NewCoin(tok.Denom, total)})
	}
	w.StepQuiet()
	for ti, tok := range w.Tokens {
		for ci, chain := range b.Order {
			// token i is bridged to chain (i mod nChains) and, for even i, to all chains
			if ci != ti%len(b.Order) && ti%2 == 1 {
				continue
			}
			addr := common.BytesToAddress(ethcrypto.Keccak256([]byte(fmt.Sprintf("erc20/%d", ti)))[12:])
			tok.ERC20[chain] = addr
			b.Submit(admin, &skywaytypes.MsgSetERC20ToTokenDenom{Metadata: meta(admin), Denom: tok.Denom, ChainReferenceId: chain, Erc20: addr.Hex()})
		}
	}
	w.StepQuiet()
	share := total.QuoRaw(int64(len(b.Users) + 1))
	for _, u := range b.Users[1:] {
		var cs sdk.Coins
		for _, tok := range w.Tokens {
			cs = cs.Add(sdk.NewCoin(tok.Denom, share))
		}
		b.Submit(admin, banktypesSend(admin, u, cs))
	}
	w.StepQuiet()
	// verify setup through public state and initialise the model from it
	ctx := b.Ctx()
	for _, tok := range w.Tokens {
		for chain, addr := range tok.ERC20 {
			got, err := b.N.App.SkywayKeeper.GetERC20OfDenom(ctx, chain, tok.Denom)
			if err != nil || got.GetAddress() != addr {
				core.Harnessf("token setup failed for %s on %s: %v", tok.Denom, chain, err)
			}
		}
		w.Supply[tok.Denom] = b.N.App.BankKeeper.GetSupply(ctx, tok.Denom).Amount
		for _, u := range b.Users {
			w.setBal(u.Bech32(), tok.Denom, b.N.App.BankKeeper.GetBalance(ctx, u.Addr, tok.Denom).Amount)
		}
	}
	for i := 0; i < 3; i++ {
		w.EvmUsers = append(w.EvmUsers, world.NewEthKey(r.Seed, fmt.Sprintf("evmuser%d", i)))
	}
	r.Trace.Event("tokens-ready", "n=%d h=%d", len(w.Tokens), b.N.Height)
	prev := b.Sim.OnRestart
	b.Sim.OnRestart = func() {
		if prev != nil {
			prev()
		}
		w.ForgetPending()
	}
	return w
}

func (w *SkyWorld) setBal(addr, denom string, v math.Int) {
	if w.Bal[addr] == nil {
		w.Bal[addr] = map[string]math.Int{}
	}
	w.Bal[addr][denom] = v
}

func (w *SkyWorld) addBal(addr, denom string, d math.Int) {
	if w.Bal[addr] == nil {
		return // untracked account
	}
	cur, ok := w.Bal[addr][denom]
	if !ok {
		cur = math.ZeroInt()
	}
	w.Bal[addr][denom] = cur.Add(d)
}

// StepQuiet advances one block without client traffic bookkeeping (setup phase).
func (w *SkyWorld) StepQuiet() { w.Gov.Tick(); w.Bridge.Step() }

func (w *SkyWorld) tokenByDenom(d string) *Token {
	for _, t := range w.Tokens {
		if t.Denom == d {
			return t
		}
	}
	return nil
}

func (w *SkyWorld) denomOf(chain string, contract common.Address) string {
	for _, t := range w.Tokens {
		if a, ok := t.ERC20[chain]; ok && a == contract {
			return t.Denom
		}
	}
	return ""
}

// ---- client operations ----

func (w *SkyWorld) Send(u *world.Account, denom, chain string, amount math.Int, dest common.Address) {
	msg := &skywaytypes.MsgSendToRemote{Metadata: meta(u), EthDest: dest.Hex(), Amount: sdk.Coin{Denom: denom, Amount: amount}, ChainReferenceId: chain}
	res := w.Submit(u, msg)
	if res.Accepted() {
		w.pendingOps = append(w.pendingOps, &skyOp{kind: "send", user: u, denom: denom, chain: chain, amount: amount, tx: res.Tx})
	}
}

func (w *SkyWorld) Cancel(u *world.Account, id uint64) {
	res := w.Submit(u, &skywaytypes.MsgCancelSendToRemote{Metadata: meta(u), TransactionId: id})
	if res.Accepted() {
		w.pendingOps = append(w.pendingOps, &skyOp{kind: "cancel", user: u, id: id, tx: res.Tx})
	}
}

// Deposit makes a remote user lock tokens in compass for a Paloma receiver.
func (w *SkyWorld) Deposit(chain string, from *world.EthKey, token common.Address, receiver [32]byte, amount *big.Int) *evmsim.TxRecord {
	compass, _, ok := w.CompassOf(chain)
	if !ok {
		return nil
	}
	ch := w.Chains[chain]
	ch.MintToken(token, from.Addr, amount)
	data, err := evmsim.CompassABI.Pack("send_token_to_paloma", token, receiver, amount)
	if err != nil {
		panic(err)
	}
	rec := ch.Call(from, compass, data)
	w.R.Trace.Event("deposit", "%s token=%s amount=%s ok=%v", chain, token.Hex()[:10], amount, rec.Reason == "")
	return rec
}

func eventAttr(evs []abci.Event, typ, key string) (string, bool) {
	for _, e := range evs {
		if !strings.HasSuffix(e.Type, typ) {
			continue
		}
		for _, a := range e.Attributes {
			if a.Key == key {
				return strings.Trim(a.Value, "\""), true
			}
		}
	}
	return "", false
}

// AfterBlock digests tx results of the block and evaluates the ledger oracle.
// It returns violations of conservation / lifecycle (attributed to C01).
func (w *SkyWorld) AfterBlock(br *world.BlockResult) []*core.Violation {
	if w.Aborted || br == nil {
		return nil
	}
	b := w.Bridge
	ctx := b.Ctx()
	sk := b.N.App.SkywayKeeper
	var out []*core.Violation
	bad := func(class string, facts map[string]string, format string, args ...any) {
		out = append(out, vio("C01", class, br.Height, facts, fmt.Sprintf(format, args...)))
	}
	// 1. client tx results, in block order
	order := map[string]int{}
	for i, tx := range br.Txs {
		order[string(tx)] = i
	}
	sort.SliceStable(w.pendingOps, func(i, j int) bool { return order[string(w.pendingOps[i].tx)] < order[string(w.pendingOps[j].tx)] })
	var keep []*skyOp
	for _, op := range w.pendingOps {
		res := world.TxResultIn(br, op.tx)
		if res == nil {
			keep = append(keep, op) // still in the mempool (cleared on restart)
			continue
		}
		ok := res.Code == 0
		switch op.kind {
		case "send":
			b.R.Trace.Event("send", "%s %s %s ok=%v", op.user.Name, op.amount, op.chain, ok)
			if !ok {
				b.R.Stats.Probe("send_failed")
				continue
			}
			b.R.Stats.Probe("send_ok")
			idStr, found := eventAttr(res.Events, "EventOutgoingTxId", "tx_id")
			if !found {
				core.Harnessf("successful SendToRemote without EventOutgoingTxId")
			}
			id, _ := strconv.ParseUint(idStr, 10, 64)
			w.Transfers[id] = &Transfer{ID: id, Sender: op.user.Bech32(), Denom: op.denom, Chain: op.chain, Amount: op.amount, State: "new", Created: br.Height}
		case "cancel":
			b.R.Trace.Event("cancel", "%s id=%d ok=%v", op.user.Name, op.id, ok)
			if ok {
				b.R.Stats.Probe("cancel_ok")
				w.cancelled[op.id] = true
				tr := w.Transfers[op.id]
				if tr == nil {
					bad("cancel-unknown", nil, "cancel of unknown transfer id %d succeeded", op.id)
				} else if tr.Sender != op.user.Bech32() {
					bad("cancel-by-other", nil, "transfer %d of %s was cancelled by %s", op.id, tr.Sender, op.user.Bech32())
				}
			}
		}
	}
	w.pendingOps = keep
	if w.forget {
		// the node lost its mempool: whatever was not in this block is gone
		w.pendingOps = nil
		w.forget = false
	}

	// 2. real state
	pool, err := sk.GetUnbatchedTransactions(ctx)
	if err != nil {
		core.Harnessf("GetUnbatchedTransactions: %v", err)
	}
	batches, err := sk.GetOutgoingTxBatches(ctx)
	if err != nil {
		core.Harnessf("GetOutgoingTxBatches: %v", err)
	}
	places := map[uint64]int{}
	where := map[uint64]string{}
	oblig := map[string]math.Int{} // denom -> obligations
	addOblig := func(d string, v math.Int) {
		cur, ok := oblig[d]
		if !ok {
			cur = math.ZeroInt()
		}
		oblig[d] = cur.Add(v)
	}
	for _, tx := range pool {
		places[tx.Id]++
		where[tx.Id] = "pool"
		d := w.denomOf(tx.Erc20Token.ChainReferenceID, tx.Erc20Token.Contract.GetAddress())
		if d == "" {
			bad("pool-unknown-token", nil, "pool entry %d refers to unmapped token %s on %s", tx.Id, tx.Erc20Token.Contract.GetAddress().Hex(), tx.Erc20Token.ChainReferenceID)
			continue
		}
		addOblig(d, tx.Erc20Token.Amount.Add(tx.BridgeTaxAmount))
		if tr := w.Transfers[tx.Id]; tr != nil && tr.Tax.IsNil() {
			tr.Tax = tx.BridgeTaxAmount
		}
	}
	curBatches := map[string][]uint64{}
	for _, bt := range batches {
		key := fmt.Sprintf("%s/%d", bt.TokenContract.GetAddress().Hex(), bt.BatchNonce)
		w.batchChain[key] = bt.ChainReferenceID
		for _, tx := range bt.Transactions {
			places[tx.Id]++
			where[tx.Id] = "batch " + key
			curBatches[key] = append(curBatches[key], tx.Id)
			d := w.denomOf(bt.ChainReferenceID, bt.TokenContract.GetAddress())
			if d == "" {
				bad("batch-unknown-token", nil, "batch %s refers to unmapped token", key)
				continue
			}
			addOblig(d, tx.Erc20Token.Amount.Add(tx.BridgeTaxAmount))
			if tr := w.Transfers[tx.Id]; tr != nil {
				if tr.Tax.IsNil() {
					tr.Tax = tx.BridgeTaxAmount
				}
				tr.Batch = bt.BatchNonce
			}
		}
	}
	if len(batches) > 0 {
		b.R.Stats.Probe("blocks_with_open_batch")
	}
	w.OpenBatches = len(batches)

	// 3. newly observed attestations (deposits, executed batches)
	executedBatches := map[string]bool{}
	type appliedDeposit struct {
		denom    string
		amount   math.Int
		receiver string
		nonce    uint64
		chain    string
	}
	var deposits []appliedDeposit
	for _, chain := range b.Order {
		_ = sk.IterateAttestations(ctx, chain, false, func(key []byte, att skywaytypes.Attestation) bool {
			if !att.Observed {
				return false
			}
			k := chain + "/" + string(key)
			if w.seenObserved[k] {
				return false
			}
			w.seenObserved[k] = true
			claim, err := sk.UnpackAttestationClaim(&att)
			if err != nil {
				return false
			}
			switch c := claim.(type) {
			case *skywaytypes.MsgSendToPalomaClaim:
				b.R.Stats.Probe("deposit_observed")
				d := w.denomOf(chain, common.HexToAddress(c.TokenContract))
				b.R.Trace.Event("observed-deposit", "%s nonce=%d registered=%v receiver=%s", chain, c.SkywayNonce, d != "", c.PalomaReceiver)
				if d != "" {
					deposits = append(deposits, appliedDeposit{d, c.Amount, c.PalomaReceiver, c.SkywayNonce, chain})
				}
			case *skywaytypes.MsgBatchSendToRemoteClaim:
				b.R.Stats.Probe("batch_executed_observed")
				key := fmt.Sprintf("%s/%d", common.HexToAddress(c.TokenContract).Hex(), c.BatchNonce)
				b.R.Trace.Event("observed-batch", "%s nonce=%d batch=%s", chain, c.SkywayNonce, key)
				executedBatches[key] = true
			}
			return false
		})
	}

	// 4. lifecycle: every known transfer in exactly one place
	ids := make([]uint64, 0, len(w.Transfers))
	for id := range w.Transfers {
		ids = append(ids, id)
	}
	sort.Slice(ids, func(i, j int) bool { return ids[i] < ids[j] })
	for _, id := range ids {
		tr := w.Transfers[id]
		n := places[id]
		switch {
		case n > 1:
			bad("transfer-in-two-places", nil, "transfer %d is in %d places (last: %s)", id, n, where[id])
		case n == 1:
			if tr.State == "refunded" || tr.State == "burned" {
				bad("transfer-resurrected", nil, "transfer %d was %s but is in %s again", id, tr.State, where[id])
			}
			if strings.HasPrefix(where[id], "pool") {
				tr.State = "pool"
			} else {
				tr.State = "batch"
			}
		default:
			if tr.State == "refunded" || tr.State == "burned" {
				continue
			}
			if w.cancelled[id] {
				tr.State = "refunded"
				w.addBal(tr.Sender, tr.Denom, tr.Amount.Add(nz(tr.Tax)))
				continue
			}
			// was it in a batch that has just been executed?
			wasIn := ""
			for key, members := range w.lastBatches {
				for _, m := range members {
					if m == id {
						wasIn = key
					}
				}
			}
			if wasIn != "" && executedBatches[wasIn] {
				tr.State = "burned"
				w.Supply[tr.Denom] = w.Supply[tr.Denom].Sub(tr.Amount.Add(nz(tr.Tax)))
				b.R.Stats.Probe("transfer_burned")
				continue
			}
			if tr.State == "new" && tr.Tax.IsNil() {
				// accepted in this very block and gone by the boundary: only a same-block cancel explains it
				bad("transfer-vanished", map[string]string{"stage": "same-block"}, "transfer %d accepted at height %d is nowhere at the block boundary", id, br.Height)
				tr.State = "lost"
				continue
			}
			if tr.State != "lost" {
				stage := "pool"
				if wasIn != "" {
					stage = "batch"
				}
				bad("transfer-vanished", map[string]string{"stage": stage, "height_mod_50": fmt.Sprint(br.Height % 50)},
					"transfer %d (%s %s from %s) was in %s and is now in neither pool nor any batch, was not refunded and its batch was not attested as executed",
					id, tr.Amount, tr.Denom, tr.Sender, map[bool]string{true: "batch " + wasIn, false: "the pool"}[wasIn != ""])
				tr.State = "lost"
			}
		}
	}
	for id, n := range places {
		if _, known := w.Transfers[id]; !known && n > 0 {
			bad("unknown-transfer-in-state", nil, "transfer id %d is in %s but no accepted SendToRemote produced it", id, where[id])
		}
	}
	w.lastBatches = curBatches

	// 5. model effects of this block on balances and supply
	for _, id := range ids {
		tr := w.Transfers[id]
		if tr.Created == br.Height {
			w.addBal(tr.Sender, tr.Denom, tr.Amount.Add(nz(tr.Tax)).Neg())
		}
	}
	// deposits: an observed deposit of a registered token is applied exactly once. Under an injected
	// collaborator fault (narrow relaxation, DESIGN §3 rule 3) at most one deposit of the block may have
	// failed to apply (the handler reports failure and leaves balances as they were).
	for _, tok := range w.Tokens {
		var ds []appliedDeposit
		for _, dp := range deposits {
			if dp.denom == tok.Denom {
				ds = append(ds, dp)
			}
		}
		if len(ds) == 0 {
			continue
		}
		actual := b.N.App.BankKeeper.GetSupply(ctx, tok.Denom).Amount
		applied := make([]bool, len(ds))
		for i := range applied {
			applied[i] = true
		}
		if w.FaultMethod != "" && len(ds) <= 14 {
			// which deposits were applied: the subset whose amounts explain the change of the supply (each deposit is applied
			// completely or not at all; an injected failure - one call, or the collaborator down for the whole block - may
			// have made any number of them fail). Prefer the largest such subset.
			delta := actual.Sub(w.Supply[tok.Denom])
			best, bestN := -1, -1
			for mask := 0; mask < 1<<len(ds); mask++ {
				sum, n := math.ZeroInt(), 0
				for i, dp := range ds {
					if mask&(1<<i) != 0 {
						sum = sum.Add(dp.amount)
						n++
					}
				}
				if sum.Equal(delta) && n > bestN {
					best, bestN = mask, n
				}
			}
			if best >= 0 {
				for i := range ds {
					applied[i] = best&(1<<i) != 0
					if !applied[i] {
						b.R.Stats.Probe("deposit_failed_under_fault")
					}
				}
			}
		}
		// credit the receivers; under a fault the forward to the receiver may have failed, in which case the deposit went to
		// the community pool: per receiver, the credited subset is the one that explains the receiver's balance
		byRecv := map[string][]int{}
		for i, dp := range ds {
			if !applied[i] {
				continue
			}
			w.Supply[tok.Denom] = w.Supply[tok.Denom].Add(dp.amount)
			b.R.Stats.Probe("deposit_applied")
			byRecv[dp.receiver] = append(byRecv[dp.receiver], i)
		}
		for _, recv := range core.SortedKeys(byRecv) {
			idx := byRecv[recv]
			credit := make([]bool, len(idx))
			for k := range credit {
				credit[k] = true
			}
			if acc, err := sdk.AccAddressFromBech32(recv); err == nil && w.Bal[recv] != nil && w.FaultMethod != "" && len(idx) <= 14 {
				got := b.N.App.BankKeeper.GetBalance(ctx, acc, tok.Denom).Amount
				delta := got.Sub(w.Bal[recv][tok.Denom])
				best, bestN := -1, -1
				for mask := 0; mask < 1<<len(idx); mask++ {
					sum, n := math.ZeroInt(), 0
					for k, i := range idx {
						if mask&(1<<k) != 0 {
							sum = sum.Add(ds[i].amount)
							n++
						}
					}
					if sum.Equal(delta) && n > bestN {
						best, bestN = mask, n
					}
				}
				if best >= 0 {
					for k := range idx {
						credit[k] = best&(1<<k) != 0
						if !credit[k] {
							b.R.Stats.Probe("deposit_to_community_pool_under_fault")
						}
					}
				}
			}
			for k, i := range idx {
				if credit[k] {
					w.addBal(recv, tok.Denom, ds[i].amount)
				}
			}
		}
	}

	// 6. escrow and supply equalities
	esc := moduleAddr(skywaytypes.ModuleName)
	for _, tok := range w.Tokens {
		have := b.N.App.BankKeeper.GetBalance(ctx, esc, tok.Denom).Amount
		want, ok := oblig[tok.Denom]
		if !ok {
			want = math.ZeroInt()
		}
		if !have.Equal(want) {
			bad("escrow-mismatch", map[string]string{"sign": map[bool]string{true: "escrow>obligations", false: "escrow<obligations"}[have.GT(want)]},
				"denom %s: escrow holds %s but pool+batches owe %s", tok.Denom, have, want)
		}
		sup := b.N.App.BankKeeper.GetSupply(ctx, tok.Denom).Amount
		if !sup.Equal(w.Supply[tok.Denom]) {
			bad("supply-mismatch", nil, "denom %s: supply %s, model (mints + observed deposits - executed batches) %s", tok.Denom, sup, w.Supply[tok.Denom])
			w.Supply[tok.Denom] = sup // resync so that one defect is reported once
		}
		lifecycleBroken := len(out) > 0
		for _, u := range b.Users {
			got := b.N.App.BankKeeper.GetBalance(ctx, u.Addr, tok.Denom).Amount
			exp := w.Bal[u.Bech32()][tok.Denom]
			if !got.Equal(exp) && lifecycleBroken {
				w.setBal(u.Bech32(), tok.Denom, got) // follow-on of a violation already reported: resync
				continue
			}
			if !got.Equal(exp) {
				bad("user-balance-mismatch", nil, "%s holds %s of %s, model %s (sends lock amount+tax, cancels refund amount+tax, deposits credit amount)", u.Name, got, tok.Denom, exp)
				w.setBal(u.Bech32(), tok.Denom, got)
			}
		}
	}
	b.N.Logger.Drain()
	return out
}

// ForgetPending drops client bookkeeping of txs that were only in the (lost) mempool.
func (w *SkyWorld) ForgetPending() { w.forget = true }

func banktypesSend(from, to *world.Account, cs sdk.Coins) sdk.Msg {
	return &banktypes.MsgSend{FromAddress: from.Bech32(), ToAddress: to.Bech32(), Amount: cs}
}

func nz(v math.Int) math.Int {
	if v.IsNil() {
		return math.ZeroInt()
	}
	return v
}

func palomaReceiver(a sdk.AccAddress) [32]byte { return pad32(a.Bytes()) }

// RandomClientOps issues a seeded mix of sends, cancels and remote deposits.
func (w *SkyWorld) RandomClientOps() {
	t := w.T
	r := w.R
	nOps := t.Intn(4)
	for j := 0; j < nOps; j++ {
		u := w.Users[t.Intn(len(w.Users))]
		switch k := t.Draw(10); {
		case k < 5: // send
			tok := w.Tokens[t.Intn(len(w.Tokens))]
			chains := core.SortedKeys(tok.ERC20)
			chain := chains[t.Intn(len(chains))]
			var amt math.Int
			switch t.Draw(6) {
			case 0:
				amt = math.NewInt(1)
			case 1:
				amt = math.NewIntFromBigInt(new(big.Int).Exp(big.NewInt(10), big.NewInt(int64(20+t.Intn(12))), nil)) // may exceed balance
			default:
				amt = math.NewIntFromUint64(1 + t.Uint64()%1_000_000_000_000)
			}
			dest := common.BytesToAddress(t.Bytes(20))
			if t.Draw(20) == 19 {
				dest = common.Address{} // zero address: must be rejected
			}
			w.Send(u, tok.Denom, chain, amt, dest)
		case k < 7: // cancel
			ids := sortedTransferIDs(w.Transfers)
			if len(ids) == 0 {
				continue
			}
			id := ids[t.Intn(len(ids))]
			if t.Draw(8) == 7 {
				id += 1000 // nonexistent
			}
			who := u
			if tr := w.Transfers[id]; tr != nil && t.Draw(3) != 0 {
				for _, cand := range w.Users {
					if cand.Bech32() == tr.Sender {
						who = cand // usually the owner cancels
					}
				}
			}
			w.Cancel(who, id)
		default: // inbound deposit on the remote chain
			tok := w.Tokens[t.Intn(len(w.Tokens))]
			chains := core.SortedKeys(tok.ERC20)
			chain := chains[t.Intn(len(chains))]
			token := tok.ERC20[chain]
			if t.Draw(10) == 9 {
				token = common.BytesToAddress(t.Bytes(20)) // unregistered ERC-20
			}
			var recv [32]byte
			switch t.Draw(6) {
			case 0:
				recv = palomaReceiver(moduleAddr(skywaytypes.ModuleName)) // blocked module account
			case 1:
				copy(recv[:], t.Bytes(32)) // garbage
			default:
				recv = palomaReceiver(w.Users[t.Intn(len(w.Users))].Addr)
			}
			w.Deposit(chain, w.EvmUsers[t.Intn(len(w.EvmUsers))], token, recv, new(big.Int).SetUint64(1+t.Uint64()%1_000_000_000))
			r.Stats.Probe("deposit_sent")
		}
	}
}

// RandomGovernance occasionally changes bridge tax / transfer limits mid-flight.
func (w *SkyWorld) RandomGovernance() {
	t := w.T
	if !w.Gov.Busy() && t.Chance(1, 40) {
		tok := w.Tokens[t.Intn(len(w.Tokens))]
		if !w.taxSet || t.Draw(2) == 0 {
			rate := []string{"0.01", "1/3", "0", "0.2", "2.5"}[t.Intn(5)]
			w.Gov.Propose("tax "+rate, nil, Legacy(&skywaytypes.SetBridgeTaxProposal{Title: "tax " + rate, Description: "d", Rate: rate, Token: tok.Denom}))
			w.taxSet = true
		} else if !w.limitSet {
			w.Gov.Propose("limit", nil, Legacy(&skywaytypes.SetBridgeTransferLimitProposal{Title: "limit", Description: "d", Token: tok.Denom,
				Limit: math.NewIntFromUint64(1 + t.Uint64()%1_000_000_000_000_000), LimitPeriod: skywaytypes.LimitPeriod_DAILY}))
			w.limitSet = true
		}
	}
}
