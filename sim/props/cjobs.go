package props

import (
	"fmt"
	"sort"

	"cosmossdk.io/math"
	"github.com/ethereum/go-ethereum/common/hexutil"
	evmtypes "github.com/palomachain/paloma/v2/x/evm/types"
	treasurytypes "github.com/palomachain/paloma/v2/x/treasury/types"
	valsettypes "github.com/palomachain/paloma/v2/x/valset/types"
	"verifsim/core"
	"verifsim/evmsim"
)

func init() {
	for _, id := range []string{"C17", "C14", "C06", "C05", "C04", "C07", "C09"} {
		id := id
		Register(id, func(r *core.Run) []*core.Violation {
			if (id == "C05" || id == "C06") && r.Tape.Draw(4) == 3 {
				return skyBatchScenario(r, id) // the bridge-batch half of these properties
			}
			if id == "C09" && r.Tape.Draw(6) == 5 {
				return pruneWorld(r, id) // long runs in which stale messages of every kind get pruned
			}
			return jobScenario(r, id)
		})
	}
}

// jobScenario drives the cross-chain message machinery (jobs -> contract calls,
// validator-set updates, compass deployment) with honest relayers and runs every
// message-queue oracle; only violations of `prop` are returned, what the other
// oracles notice becomes a note (DESIGN §3 rule 5).
func jobScenario(r *core.Run, prop string) []*core.Violation {
	t := r.Tape
	cfg := BridgeCfg{Chains: []ChainSpec{{"eth-main", 1}}}
	if t.Draw(3) == 2 {
		cfg.Chains = append(cfg.Chains, ChainSpec{"bnb-main", 56})
	}
	cfg.NVals = 3 + t.Intn(4)
	cfg.NUsers = 2 + t.Intn(3)
	cfg.InitialHeight = 40
	// stakes: equal, geometric, whale
	layout := t.Intn(3)
	if prop == "C04" && t.Draw(2) == 1 {
		layout = 2
	}
	stall := -1 // a validator whose relayer stops attesting / estimating after the bootstrap (offline, not Byzantine)
	if prop == "C04" && t.Draw(3) == 0 {
		layout = 3
	}
	switch layout {
	case 3:
		// boundary: the validators that keep working hold exactly floor(2T/3) shares with T = 3k+1 or 3k+2 (one share
		// short of two thirds), or exactly 2T/3 with T = 3k (just enough)
		k := int64(2_000_000 + t.Intn(3_000_000_000))
		rem := int64(t.Intn(3))
		T := 3*k + rem
		A := 2 * T / 3
		n := cfg.NVals - 1
		left := A
		for i := 0; i < n; i++ {
			share := left / int64(n-i)
			if i < n-1 && share > 2_000_000 {
				share = share - int64(t.Intn(int(share/4)))
			}
			if i == n-1 {
				share = left
			}
			cfg.Stakes = append(cfg.Stakes, math.NewInt(share))
			left -= share
		}
		cfg.Stakes = append(cfg.Stakes, math.NewInt(T-A))
		stall = cfg.NVals - 1
		r.Stats.Probe(fmt.Sprintf("c04_boundary_layout_T_mod_3=%d", rem))
	case 1:
		for i := 0; i < cfg.NVals; i++ {
			cfg.Stakes = append(cfg.Stakes, math.NewInt(int64(1_000_000_000)*int64(i+1)))
		}
	case 2:
		// one whale: 3x, or a dominant one holding more than 2/3 on its own
		mult := int64(3)
		if t.Draw(2) == 1 {
			mult = int64(3 * cfg.NVals)
		}
		for i := 0; i < cfg.NVals; i++ {
			s := int64(1_000_000_000)
			if i == 0 {
				s *= mult
			}
			cfg.Stakes = append(cfg.Stakes, math.NewInt(s))
		}
	}
	cfg.MevVals = map[int]bool{}
	for i := 0; i < cfg.NVals; i++ {
		if t.Draw(3) == 0 {
			cfg.MevVals[i] = true
		}
	}
	cfg.MevOnlyOn = map[int]string{}
	if len(cfg.Chains) > 1 {
		for i := 0; i < cfg.NVals; i++ {
			if cfg.MevVals[i] && t.Draw(2) == 1 {
				cfg.MevOnlyOn[i] = cfg.Chains[t.Intn(len(cfg.Chains))].RefID
			}
		}
	}
	cfg.FeeMultiplier = map[int]string{}
	for i := 0; i < cfg.NVals; i++ {
		cfg.FeeMultiplier[i] = []string{"1.1", "1.0", "1.337", "0.5", "2", "1.000000000000000001", "3.999999999999999999"}[t.Intn(7)]
	}
	cfg.NContracts = t.Intn(3)
	cfg.EstimateHoldPerMille = []int{0, 100, 300}[t.Intn(3)]
	cfg.AttestHoldPerMille = []int{0, 0, 150, 400}[t.Intn(4)]
	faulty := t.Draw(2) == 1
	if faulty {
		r.Profile = "faulty"
		cfg.RestartPerMille = 12
		cfg.CrashPerMille = 8
		cfg.JumpPerMille = 8
	} else {
		r.Profile = "fault-free"
	}
	w := NewJobWorld(r, cfg)
	if w.Aborted {
		w.abortNote(prop)
		return nil
	}
	var viols []*core.Violation
	report := func(vs []*core.Violation) {
		for _, v := range vs {
			if v.Property == prop {
				viols = append(viols, v)
			} else {
				r.Note(v.Property, v.Class, "%s", v.Detail)
			}
		}
	}
	// Byzantine validators (menus per property, DESIGN §4). Their relayers follow the protocol except for the hooks.
	byz := map[int]bool{}
	switch prop {
	case "C04":
		// Byzantine validators: the smallest ones, as many as fit below one third of the shares
		total := math.ZeroInt()
		for _, v := range w.Vals {
			total = total.Add(v.Stake)
		}
		sum := math.ZeroInt()
		max := t.Intn(cfg.NVals)
		for i := 0; i < max; i++ {
			vi := cfg.NVals - 1 - i
			if !sum.Add(w.Vals[vi].Stake).MulRaw(3).LT(total) {
				break
			}
			sum = sum.Add(w.Vals[vi].Stake)
			byz[vi] = true
			w.Pigeons[vi].Hooks.Evidence = w.byzEvidence(vi)
			w.Pigeons[vi].Hooks.Estimate = w.byzEstimate
		}
	case "C06":
		// one or two validators also submit signatures that must not be accepted
		for i := 0; i < 1+t.Intn(2) && i < cfg.NVals-2; i++ {
			byz[cfg.NVals-1-i] = true
		}
	case "C07":
		// liars may hold anything from 0 to 100 % of the shares
		n := t.Intn(cfg.NVals + 1)
		collude := t.Draw(3) == 1 // the liars coordinate on one byte-identical false proof
		for i := 0; i < n; i++ {
			vi := cfg.NVals - 1 - i
			byz[vi] = true
			w.Pigeons[vi].Hooks.Relay = w.byzRelay
			if collude {
				w.Pigeons[vi].Hooks.Evidence = w.stripReceipt
			} else if t.Draw(3) == 0 {
				w.Pigeons[vi].Hooks.Evidence = w.byzEvidence(vi)
			}
		}
	}
	if prop == "C09" {
		// hostile validators together hold less than one third of the shares (DESIGN §4 C09, adversary bound)
		total := math.ZeroInt()
		for _, v := range w.Vals {
			total = total.Add(v.Stake)
		}
		sum := math.ZeroInt()
		for i := 0; i < cfg.NVals; i++ {
			vi := cfg.NVals - 1 - i
			if !sum.Add(w.Vals[vi].Stake).MulRaw(3).LT(total) {
				break
			}
			sum = sum.Add(w.Vals[vi].Stake)
			byz[vi] = true
			w.Pigeons[vi].Hooks.Estimate = w.byzEstimate
			if t.Draw(2) == 0 {
				w.Pigeons[vi].Hooks.Evidence = w.byzEvidence(vi)
			}
		}
	}
	if stall >= 0 {
		delete(byz, stall)
		p := w.Pigeons[stall]
		p.Hooks = PigeonHooks{}
		p.NoAttest, p.NoEstimate = true, true
		r.Trace.Event("stalled", "%s holds the remaining shares and stops attesting / estimating", p.V.Acct.Name)
	}
	r.Stats.ProbeN("byzantine_validators", int64(len(byz)))
	prevE := w.eligibility()
	prevFx := w.effects()
	nBlocks := 60 + t.Intn(100)
	// governance replaces the bridge contract mid-run (upload -> handover on the old contract -> activation under a
	// new deployment id) while jobs, validator-set updates and signatures are in flight
	redeployAt := -1
	redeployOdds := uint64(4)
	if prop == "C07" || prop == "C05" || prop == "C06" {
		redeployOdds = 2
	}
	if t.Draw(redeployOdds) == 0 {
		redeployAt = 3 + t.Intn(40)
	}
	for i := 0; i < nBlocks && !w.Aborted && len(viols) == 0; i++ {
		if i == redeployAt {
			ga := GovAuthority()
			w.Gov.Propose("compass-redeploy", nil, &evmtypes.MsgDeployNewSmartContractProposalV2{
				Metadata: valsettypes.MsgMetadata{Creator: ga, Signers: []string{ga}}, Authority: ga,
				AbiJSON: evmsim.CompassABIJSON, BytecodeHex: hexutil.Encode(evmsim.CompassBytecode)})
			r.Stats.Probe("compass_redeploy_proposed")
			r.Trace.Event("compass-redeploy", "proposed at h=%d", w.N.Height)
		}
		w.RandomJobTraffic(3)
		if prop == "C14" && !w.Gov.Busy() && t.Chance(1, 20) {
			// governance changes the community / security fee rates mid-flight, including to zero (which makes the
			// fee step of an estimate election fail until it is changed again)
			rate := []string{"0", "0.01", "0.05", "0.3", "0", "0.000000000000000001"}[t.Intn(6)]
			title := fmt.Sprintf("fee-rate %d", i)
			if t.Draw(2) == 0 {
				w.Gov.Propose(title, nil, Legacy(&treasurytypes.CommunityFundFeeProposal{Title: title, Description: "d", Fee: rate}))
			} else {
				w.Gov.Propose(title, nil, Legacy(&treasurytypes.SecurityFeeProposal{Title: title, Description: "d", Fee: rate}))
			}
			if rate == "0" {
				r.Stats.Fault("treasury_fee_rate_set_to_zero")
			} else {
				r.Stats.Probe("treasury_fee_rate_changed")
			}
		}
		if faulty {
			for _, p := range w.Pigeons {
				if !p.Down && t.Chance(1, 150) {
					p.Crash(w.N.Height + int64(5+t.Intn(40)))
					r.Stats.Fault("pigeon_crash")
					r.Trace.Event("pigeon-crash", "%s", p.V.Acct.Name)
				}
				if t.Chance(1, 200) {
					p.EVMPartitioned = !p.EVMPartitioned
					r.Stats.Fault("pigeon_partition_toggle")
				}
			}
		}
		if prop == "C09" {
			w.hostileInputs(byz)
		}
		if prop == "C04" && t.Chance(1, 4) {
			w.reAttest(t.Intn(cfg.NVals))
		}
		if prop == "C06" {
			for _, vi := range sortedInts(byz) {
				if t.Chance(1, 3) {
					w.byzSign(vi)
				}
			}
		}
		br := w.Step()
		if w.Aborted {
			break
		}
		curE := w.eligibility()
		report(w.oracleC17(br))
		report(w.oracleC14(br, prevE, curE))
		report(w.oracleC06(br))
		report(w.oracleC05ids(br))
		report(w.oracleC05fields(br))
		report(w.oracleC04(br, prevE, curE))
		curFx := w.effects()
		report(w.oracleC07(br, prevE, prevFx, curFx))
		prevE = curE
		prevFx = curFx
	}
	_ = byz
	if prop == "C09" {
		if v := w.abortViolation(); v != nil {
			viols = append(viols, v)
		}
		r.Stats.Probe("target")
	}
	w.abortNote(prop)
	target := map[string]string{"C17": "c17_execution_checked", "C14": "c14_fee_checked", "C06": "c06_signing_bytes_changed", "C05": "c05_field_mutations", "C04": "c04_removed_with_quorum", "C07": "c07_tx_proofs_checked"}[prop]
	if r.Stats.Probes[target] > 0 {
		r.Stats.Probe("target")
	}
	r.Sample = []string{fmt.Sprintf("%s: %d chains, %d vals, %d users, %d blocks; jobs created %d, executions ok %d failed %d, relays ok %d reverted %d, signatures checked %d, signing-bytes changes %d, fee elections checked %d, relay offers checked %d",
		r.Profile, len(cfg.Chains), cfg.NVals, cfg.NUsers, r.Blocks, r.Stats.Probes["job_created"], r.Stats.Probes["job_executed"], r.Stats.Probes["job_execute_failed"],
		r.Stats.Probes["relay_ok"], r.Stats.Probes["relay_reverted"], r.Stats.Probes["c06_signature_checked"], r.Stats.Probes["c06_signing_bytes_changed"], r.Stats.Probes["c14_fee_checked"], r.Stats.Probes["c14_relay_offer_checked"])}
	return viols
}

func sortedInts(m map[int]bool) []int {
	var out []int
	for k := range m {
		out = append(out, k)
	}
	sort.Ints(out)
	return out
}
