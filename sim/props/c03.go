package props

import (
	"bytes"
	"encoding/hex"
	"fmt"
	"reflect"
	"sort"
	"strings"

	"cosmossdk.io/math"
	"cosmossdk.io/x/feegrant"
	dbm "github.com/cosmos/cosmos-db"
	sdk "github.com/cosmos/cosmos-sdk/types"
	govv1 "github.com/cosmos/cosmos-sdk/x/gov/types/v1"
	"github.com/cosmos/gogoproto/proto"
	"github.com/ethereum/go-ethereum/common"
	"github.com/palomachain/paloma/v2/app"
	consensustypes "github.com/palomachain/paloma/v2/x/consensus/types"
	evmtypes "github.com/palomachain/paloma/v2/x/evm/types"
	schedulertypes "github.com/palomachain/paloma/v2/x/scheduler/types"
	skywaytypes "github.com/palomachain/paloma/v2/x/skyway/types"
	tftypes "github.com/palomachain/paloma/v2/x/tokenfactory/types"
	valsettypes "github.com/palomachain/paloma/v2/x/valset/types"
	"math/big"

	banktypes "github.com/cosmos/cosmos-sdk/x/bank/types"
	palomatypes "github.com/palomachain/paloma/v2/x/paloma/types"
	"verifsim/core"
	"verifsim/evmsim"
	"verifsim/world"
)

func init() { Register("C03", c03) }

// principal is somebody in whose name the chain keeps state.
type principal struct {
	name string
	acc  sdk.AccAddress // nil for the governance authority view
	val  *Val
}

// victimView renders everything the public state attributes to p as key -> value strings.
func victimView(b *Bridge, p principal) map[string]string {
	ctx := b.Ctx()
	app := b.N.App
	v := map[string]string{}
	cdc := app.AppCodec()
	if p.acc == nil {
		// governance-controlled settings
		v["skyway/params"] = fmt.Sprint(app.SkywayKeeper.GetParams(ctx))
		taxes, _ := app.SkywayKeeper.AllBridgeTaxes(ctx)
		v["skyway/taxes"] = fmt.Sprint(taxes)
		lim, _ := app.SkywayKeeper.AllBridgeTransferLimits(ctx)
		v["skyway/limits"] = fmt.Sprint(lim)
		sc, _ := app.SkywayKeeper.AllLightNodeSaleContracts(ctx)
		v["skyway/sale-contracts"] = fmt.Sprint(sc)
		cis, _ := app.EvmKeeper.GetAllChainInfos(ctx)
		for _, ci := range cis {
			v["evm/chain/"+ci.ChainReferenceID] = fmt.Sprintf("%d %s %s %s %v %s %s", ci.ChainID, ci.Status, ci.MinOnChainBalance, ci.FeeManagerAddr, ci.RelayWeights, ci.SmartContractDeployerAddr, ci.ReferenceBlockHash)
		}
		// in-flight compass deployment records are operational state, not a governance-controlled setting: not part of the view (DESIGN, observations)
		if lc, err := app.EvmKeeper.GetLastCompassContract(ctx); err == nil {
			v["evm/last-compass"] = fmt.Sprint(lc.Id)
		}
		tf, _ := app.TreasuryKeeper.GetFees(ctx)
		v["treasury/fees"] = fmt.Sprint(tf)
		pr, _ := app.ValsetKeeper.PigeonRequirements(ctx)
		v["valset/pigeon-req"] = fmt.Sprint(pr)
		v["paloma/params"] = fmt.Sprint(app.PalomaKeeper.GetParams(ctx))
		f1, _ := app.PalomaKeeper.LightNodeClientFunders(ctx)
		f2, _ := app.PalomaKeeper.LightNodeClientFeegranter(ctx)
		v["paloma/lightnode-cfg"] = fmt.Sprint(f1, f2)
		v["tokenfactory/params"] = fmt.Sprint(app.TokenFactoryKeeper.GetParams(ctx))
		// bridge bindings of denominations that are not factory tokens (only governance can set those)
		dn, _ := app.SkywayKeeper.GetAllERC20ToDenoms(ctx)
		for _, m := range dn {
			if !strings.HasPrefix(m.Denom, "factory/") {
				v["skyway/binding/"+m.ChainReferenceId+"/"+m.Denom] = m.Erc20
			}
		}
		return v
	}
	accStr := p.acc.String()
	valStr := sdk.ValAddress(p.acc).String()
	// bridge votes, nonces, confirms, estimates
	for _, chain := range b.Order {
		_ = app.SkywayKeeper.IterateAttestations(ctx, chain, false, func(key []byte, att skywaytypes.Attestation) bool {
			n := 0
			for _, vote := range att.Votes {
				if vote == valStr {
					n++
				}
			}
			if n > 0 {
				v["skyway/vote/"+chain+"/"+hex.EncodeToString(key)] = fmt.Sprint(n)
			}
			return false
		})
		if p.val != nil {
			n, err := app.SkywayKeeper.GetLastSkywayNonceByValidator(ctx, sdk.ValAddress(p.acc), chain)
			if err == nil {
				v["skyway/validator-nonce/"+chain] = fmt.Sprint(n)
			}
		}
	}
	app.SkywayKeeper.IterateBatchConfirms(ctx, func(key []byte, c skywaytypes.MsgConfirmBatch) bool {
		if c.Orchestrator == accStr {
			v["skyway/confirm/"+hex.EncodeToString(key)] = c.Signature
		}
		return false
	})
	app.SkywayKeeper.IterateBatchGasEstimates(ctx, func(key []byte, e skywaytypes.MsgEstimateBatchGas) bool {
		if e.Metadata.Creator == accStr {
			v["skyway/batch-estimate/"+hex.EncodeToString(key)] = fmt.Sprint(e.Estimate)
		}
		return false
	})
	if txs, err := app.SkywayKeeper.GetUnbatchedTransactions(ctx); err == nil {
		for _, tx := range txs {
			if tx.Sender.Equals(p.acc) {
				v[fmt.Sprintf("skyway/pool/%d", tx.Id)] = tx.Erc20Token.Amount.String()
			}
		}
	}
	if bts, err := app.SkywayKeeper.GetOutgoingTxBatches(ctx); err == nil {
		for _, bt := range bts {
			for _, tx := range bt.Transactions {
				if tx.Sender.Equals(p.acc) {
					v[fmt.Sprintf("skyway/batched/%d", tx.Id)] = tx.Erc20Token.Amount.String()
				}
			}
		}
	}
	// consensus queues
	cis, _ := app.EvmKeeper.GetAllChainInfos(ctx)
	for _, ci := range cis {
		for _, sub := range []string{evmtypes.ConsensusTurnstoneMessage, "validators-balances", "reference-block"} {
			qn := consensustypes.Queue(sub, consensustypes.ChainTypeEVM, ci.ChainReferenceID)
			msgs, err := app.ConsensusKeeper.GetMessagesFromQueue(ctx, qn, 0)
			if err != nil {
				continue
			}
			for _, m := range msgs {
				pre := fmt.Sprintf("consensus/%s/%d/", qn, m.GetId())
				for _, sd := range m.GetSignData() {
					if sd.ValAddress.Equals(p.acc) {
						v[pre+"sig"] = hex.EncodeToString(sd.Signature)
					}
				}
				for _, ge := range m.GetGasEstimates() {
					if ge.ValAddress.Equals(p.acc) {
						v[pre+"estimate"] = fmt.Sprint(ge.Value)
					}
				}
				for _, ev := range m.GetEvidence() {
					if ev.ValAddress.Equals(p.acc) {
						v[pre+"evidence"] = hex.EncodeToString(ev.Proof.Value)
					}
				}
				if pad := m.GetPublicAccessData(); pad != nil && pad.ValAddress.Equals(p.acc) {
					v[pre+"public"] = hex.EncodeToString(pad.Data)
				}
				if ed := m.GetErrorData(); ed != nil && ed.ValAddress.Equals(p.acc) {
					v[pre+"error"] = hex.EncodeToString(ed.Data)
				}
				if cm, err := m.ConsensusMsg(cdc); err == nil {
					if em, ok := cm.(*evmtypes.Message); ok {
						if a, ok := em.Action.(*evmtypes.Message_SubmitLogicCall); ok && bytes.Equal(a.SubmitLogicCall.SenderAddress, p.acc) {
							v[pre+"call-of"] = hex.EncodeToString(a.SubmitLogicCall.Payload)
						}
					}
				}
			}
		}
	}
	// keep-alive, external accounts, relayer fees
	if p.val != nil {
		if d, err := app.ValsetKeeper.ValidatorKeepAliveData(ctx, sdk.ValAddress(p.acc)); err == nil {
			v["valset/keepalive"] = fmt.Sprintf("%d %s", d.AliveUntilBlockHeight, d.PigeonVersion)
		}
		infos, _ := app.ValsetKeeper.GetValidatorChainInfos(ctx, sdk.ValAddress(p.acc))
		for _, ci := range infos {
			v["valset/account/"+ci.ChainReferenceID] = ci.Address + fmt.Sprint(ci.Traits)
		}
		fees, _ := app.TreasuryKeeper.GetRelayerFees(ctx)
		for _, f := range fees {
			if f.ValAddress == valStr {
				v["treasury/relayer-fee"] = fmt.Sprint(f.Fees)
			}
		}
	}
	// jobs, contracts, denoms, licences
	for i := 0; i < 150; i++ {
		id := fmt.Sprintf("j%d", i)
		if !app.SchedulerKeeper.JobIDExists(ctx, id) {
			continue
		}
		if j, err := app.SchedulerKeeper.GetJob(ctx, id); err == nil && j.Owner.Equals(p.acc) {
			v["scheduler/job/"+id] = hex.EncodeToString(j.Definition) + "|" + hex.EncodeToString(j.Payload) + fmt.Sprint(j.Permissions, j.Triggers)
		}
	}
	if cs, err := app.EvmKeeper.UserSmartContracts(ctx, valStr); err == nil {
		for _, c := range cs {
			v[fmt.Sprintf("evm/user-contract/%d", c.Id)] = c.Title + fmt.Sprint(len(c.Deployments))
		}
	}
	for _, d := range app.TokenFactoryKeeper.GetDenomsFromCreator(ctx, accStr) {
		md, _ := app.TokenFactoryKeeper.GetAuthorityMetadata(ctx, d)
		v["tokenfactory/created/"+d] = md.Admin
		// the token's bridge binding, in both directions (which remote token mints / burns this denom)
		for _, chain := range b.Order {
			if erc20, err := app.SkywayKeeper.GetERC20OfDenom(ctx, chain, d); err == nil && erc20 != nil {
				v["skyway/binding/"+chain+"/"+d] = erc20.GetAddress().Hex()
				back, _ := app.SkywayKeeper.GetDenomOfERC20(ctx, chain, *erc20)
				v["skyway/binding-of/"+chain+"/"+erc20.GetAddress().Hex()] = back
			}
		}
	}
	if lic, err := app.PalomaKeeper.GetLightNodeClientLicense(ctx, accStr); err == nil {
		v["paloma/licence"] = lic.Amount.String()
	}
	if cl, err := app.PalomaKeeper.GetLightNodeClient(ctx, accStr); err == nil {
		v["paloma/client"] = cl.ActivatedAt.String() + "|" + cl.LastAuthAt.String()
	}
	// balances (a decrease is a change in B's name; an increase is a gift)
	for _, c := range app.BankKeeper.GetAllBalances(ctx, p.acc) {
		v["bank/"+c.Denom] = c.Amount.String()
	}
	return v
}

func viewDiff(before, after map[string]string) []string {
	var out []string
	keys := map[string]bool{}
	for k := range before {
		keys[k] = true
	}
	for k := range after {
		keys[k] = true
	}
	for k := range keys {
		b, okb := before[k]
		a, oka := after[k]
		if okb && oka && a == b {
			continue
		}
		if strings.HasPrefix(k, "bank/") {
			// gifts are fine
			bi, ok1 := math.NewIntFromString(b)
			ai, ok2 := math.NewIntFromString(a)
			if !okb {
				continue
			}
			if ok1 && ok2 && ai.GTE(bi) {
				continue
			}
		}
		out = append(out, fmt.Sprintf("%s: %q -> %q", k, b, a))
	}
	sort.Strings(out)
	return out
}

func copyDB(src dbm.DB) dbm.DB {
	dst := dbm.NewMemDB()
	it, err := src.Iterator(nil, nil)
	if err != nil {
		core.Harnessf("db iterator: %v", err)
	}
	defer it.Close()
	for ; it.Valid(); it.Next() {
		k := append([]byte(nil), it.Key()...)
		v := append([]byte{}, it.Value()...)
		if err := dst.Set(k, v); err != nil {
			core.Harnessf("db copy: %v", err)
		}
	}
	return dst
}

// substitute walks m and replaces every occurrence of an identity of `from` by the corresponding identity of `to`.
func substitute(m proto.Message, from, to idForms) (proto.Message, int) {
	bz, err := proto.Marshal(m)
	if err != nil {
		core.Harnessf("marshal template: %v", err)
	}
	cp := reflect.New(reflect.TypeOf(m).Elem()).Interface().(proto.Message)
	if err := proto.Unmarshal(bz, cp); err != nil {
		core.Harnessf("unmarshal template: %v", err)
	}
	n := 0
	var walk func(v reflect.Value)
	walk = func(v reflect.Value) {
		switch v.Kind() {
		case reflect.Ptr, reflect.Interface:
			if !v.IsNil() {
				walk(v.Elem())
			}
		case reflect.Struct:
			for i := 0; i < v.NumField(); i++ {
				if v.Type().Field(i).PkgPath != "" {
					continue
				}
				if v.Type().Field(i).Name == "Metadata" {
					continue // handled separately
				}
				walk(v.Field(i))
			}
		case reflect.Slice:
			if v.Type().Elem().Kind() == reflect.Uint8 {
				if v.CanSet() && bytes.Equal(v.Bytes(), from.raw) {
					v.SetBytes(append([]byte(nil), to.raw...))
					n++
				}
				return
			}
			for i := 0; i < v.Len(); i++ {
				walk(v.Index(i))
			}
		case reflect.String:
			if !v.CanSet() {
				return
			}
			s := v.String()
			switch {
			case s == from.acc:
				v.SetString(to.acc)
				n++
			case s == from.valoper:
				v.SetString(to.valoper)
				n++
			case from.acc != "" && strings.Contains(s, from.acc):
				// the identity embedded in a longer string (factory/<creator>/<sub> denominations)
				v.SetString(strings.ReplaceAll(s, from.acc, to.acc))
				n++
			default:
				for c, a := range from.eth {
					if strings.EqualFold(s, a) && to.eth[c] != "" {
						v.SetString(to.eth[c])
						n++
					}
				}
			}
		}
	}
	walk(reflect.ValueOf(cp))
	return cp, n
}

// perturb changes payload values (decimal strings, integers) of a forged message so that re-playing it is not a no-op.
func perturb(t *core.Tape, m proto.Message) int {
	n := 0
	var walk func(v reflect.Value)
	walk = func(v reflect.Value) {
		switch v.Kind() {
		case reflect.Ptr, reflect.Interface:
			if !v.IsNil() {
				walk(v.Elem())
			}
		case reflect.Struct:
			if v.Type() == reflect.TypeOf(math.LegacyDec{}) {
				if v.CanSet() && t.Draw(2) == 1 {
					v.Set(reflect.ValueOf(math.LegacyMustNewDecFromStr([]string{"7.5", "3", "0.25", "1000000"}[t.Intn(4)])))
					n++
				}
				return
			}
			if v.Type() == reflect.TypeOf(math.Int{}) {
				if v.CanSet() && !v.Interface().(math.Int).IsNil() && t.Draw(4) == 1 {
					v.Set(reflect.ValueOf(v.Interface().(math.Int).AddRaw(int64(1 + t.Intn(1000)))))
					n++
				}
				return
			}
			for i := 0; i < v.NumField(); i++ {
				if v.Type().Field(i).PkgPath != "" || v.Type().Field(i).Name == "Metadata" {
					continue
				}
				walk(v.Field(i))
			}
		case reflect.Slice:
			if v.Type().Elem().Kind() == reflect.Uint8 {
				return
			}
			for i := 0; i < v.Len(); i++ {
				walk(v.Index(i))
			}
		case reflect.String:
			if !v.CanSet() {
				return
			}
			if _, err := math.LegacyNewDecFromStr(v.String()); err == nil && v.String() != "" && t.Draw(2) == 1 {
				v.SetString([]string{"7.5", "3", "0.25", "1000000"}[t.Intn(4)])
				n++
			}
		case reflect.Uint64, reflect.Uint32:
			if v.CanSet() && t.Draw(5) == 1 {
				v.SetUint(v.Uint() + 1 + uint64(t.Intn(3)))
				n++
			}
		}
	}
	walk(reflect.ValueOf(m))
	return n
}

type idForms struct {
	acc     string
	valoper string
	raw     []byte
	eth     map[string]string
}

func formsOf(a *world.Account, v *Val) idForms {
	f := idForms{acc: a.Bech32(), valoper: a.ValBech32(), raw: a.Addr.Bytes(), eth: map[string]string{}}
	if v != nil {
		for c, k := range v.Eth {
			f.eth[c] = k.Addr.Hex()
		}
	}
	return f
}

func setMetadata(m proto.Message, creator string, signers []string) bool {
	v := reflect.ValueOf(m).Elem()
	f := v.FieldByName("Metadata")
	if !f.IsValid() {
		return false
	}
	f.Set(reflect.ValueOf(valsettypes.MsgMetadata{Creator: creator, Signers: signers}))
	return true
}

// c03Template is an honest message seen on the wire (or hand-built for message types no honest actor sends) and who sent it.
type c03Template struct {
	msg   sdk.Msg
	actor *world.Account
	val   *Val
}

func c03(r *core.Run) []*core.Violation {
	t := r.Tape
	cfg := BridgeCfg{Chains: []ChainSpec{{"eth-main", 1}}}
	cfg.NVals = 4 + t.Intn(2)
	cfg.NUsers = 5
	cfg.InitialHeight = 40
	templates := map[string][]c03Template{}
	var w *SkyWorld
	govActor := &world.Account{Name: "governance", Addr: authorityAddr()}
	addTemplate := func(a *world.Account, m sdk.Msg) {
		u := sdk.MsgTypeURL(m)
		if !strings.HasPrefix(u, "/palomachain.paloma.") && u != "/cosmos.gov.v1.MsgExecLegacyContent" {
			return
		}
		l := append(templates[u], c03Template{msg: m, actor: a})
		if len(l) > 8 {
			l = l[len(l)-8:]
		}
		templates[u] = l
	}
	var harvest func(a *world.Account, msgs []sdk.Msg, res world.SubmitResult)
	harvest = func(a *world.Account, msgs []sdk.Msg, res world.SubmitResult) {
		for _, m := range msgs {
			if sp, ok := m.(*govv1.MsgSubmitProposal); ok {
				if inner, err := sp.GetMsgs(); err == nil {
					harvest(govActor, inner, res) // what governance executes: an ordinary account must not be able to
				}
				continue
			}
			addTemplate(a, m)
		}
	}
	cfg.OnSubmit = harvest
	w = NewSkyWorld(r, cfg, 2, "C03")
	if w.Aborted {
		w.abortNote("C03")
		return nil
	}
	attacker := w.Users[3]
	granted := w.Users[2] // holds a fee grant from users[1]: must keep working (no over-blocking)
	licensee := w.Users[4]
	grantRes := w.Submit(w.Users[1], mustGrant(w.Users[1], granted))
	grantDone := false
	// a victim validator whose relayer is stalled: whatever is done in its name is done by somebody else
	stalled := w.Vals[cfg.NVals-1]
	sp := w.Pigeons[cfg.NVals-1]
	sp.NoSkyway, sp.NoSign, sp.NoEstimate, sp.NoAttest = true, true, true, true
	principals := []principal{{name: "governance"}}
	for _, v := range w.Vals {
		principals = append(principals, principal{name: "validator " + v.Acct.Name, acc: v.Acct.Addr, val: v})
	}
	for _, u := range []*world.Account{w.Users[0], w.Users[1], w.Users[2], w.Users[4]} {
		principals = append(principals, principal{name: "user " + u.Name, acc: u.Addr})
	}
	valOf := func(a *world.Account) *Val {
		for _, v := range w.Vals {
			if v.Acct == a {
				return v
			}
		}
		return nil
	}
	// governance-side configuration (also yields templates of governance-only messages)
	saleKey := w.EvmUsers[0]
	w.Gov.Propose("feegranter", nil, Legacy(palomaFeegranterProposal(w.Users[2].Bech32())))
	w.Gov.Propose("funders", nil, Legacy(palomaFundersProposal([]string{w.Users[1].Bech32()})))
	w.Gov.Propose("sale-contracts", nil, Legacy(&skywaytypes.SetLightNodeSaleContractsProposal{Title: "sale-contracts", Description: "d",
		LightNodeSaleContracts: []*skywaytypes.LightNodeSaleContract{{ChainReferenceId: "eth-main", ContractAddress: saleKey.Addr.Hex()}}}))
	ga := GovAuthority()
	gm := valsettypes.MsgMetadata{Creator: ga, Signers: []string{ga}}
	w.Gov.Propose("skyway-params", nil, &skywaytypes.MsgUpdateParams{Authority: ga, Params: w.N.App.SkywayKeeper.GetParams(w.Ctx()), Metadata: gm})
	w.Gov.Propose("paloma-params", nil, &palomatypes.MsgUpdateParams{Authority: ga, Params: w.N.App.PalomaKeeper.GetParams(w.Ctx())})
	w.Gov.Propose("tf-params", nil, &tftypes.MsgUpdateParams{Authority: ga, Params: w.N.App.TokenFactoryKeeper.GetParams(w.Ctx()), Metadata: gm})
	// message types that no honest actor of the simulation sends, or that would derail it: hand-built, attributed to governance
	addTemplate(govActor, &evmtypes.MsgDeployNewSmartContractProposalV2{Metadata: gm, Authority: ga, AbiJSON: evmsim.CompassABIJSON, BytecodeHex: "0x6001"})
	addTemplate(govActor, &evmtypes.MsgProposeNewReferenceBlockAttestation{Metadata: gm, Authority: ga, ChainReferenceId: "eth-main", BlockHeight: 5000, BlockHash: "0x" + strings.Repeat("ab", 32)})
	addTemplate(govActor, &skywaytypes.MsgNonceOverrideProposal{Metadata: gm, ChainReferenceId: "eth-main", Nonce: 1})
	addTemplate(govActor, &skywaytypes.MsgReplenishLostGrainsProposal{Metadata: gm})
	addTemplate(govActor, &skywaytypes.MsgSetERC20MappingProposal{Metadata: gm, Authority: ga, Mappings: []skywaytypes.MsgSetERC20MappingProposal_ERC20ToDenomMapping{
		{ChainReferenceId: "eth-main", Erc20: w.Tokens[0].ERC20["eth-main"].Hex(), Denom: "ugrain"}}})
	addTemplate(govActor, &palomatypes.MsgSetLegacyLightNodeClients{Metadata: gm})
	addTemplate(govActor, &evmtypes.MsgRemoveSmartContractDeploymentRequest{Metadata: gm, SmartContractID: 1, ChainReferenceID: "eth-main"})
	var viols []*core.Violation
	jobN, denomN, contractN := 0, 0, 0
	var myDenoms []string
	nBlocks := 110 + t.Intn(90)
	attacks, accepted, succeeded, controls := 0, 0, 0, 0
	u0, u1 := w.Users[0], w.Users[1]
	for i := 0; i < nBlocks && !w.Aborted && len(viols) == 0; i++ {
		// ---- honest life: bridge traffic, jobs, denoms, contracts, licences, status updates, sales
		w.RandomClientOps()
		for k := t.Intn(3); k > 0; k-- {
			u := []*world.Account{u0, u1}[t.Intn(2)]
			switch t.Intn(12) {
			case 0, 1:
				id := fmt.Sprintf("j%d", jobN)
				jobN++
				w.Submit(u, &schedulertypes.MsgCreateJob{Metadata: meta(u), Job: &schedulertypes.Job{ID: id, Routing: schedulertypes.Routing{ChainType: "evm", ChainReferenceID: "eth-main"},
					Definition: jobDefinition(common.BytesToAddress(t.Bytes(20))), Payload: jobPayload(t.Bytes(8)), IsPayloadModifiable: true}})
			case 2:
				if jobN > 0 {
					w.Submit(u, &schedulertypes.MsgExecuteJob{Metadata: meta(u), JobID: fmt.Sprintf("j%d", t.Intn(jobN))})
				}
			case 3:
				sub := fmt.Sprintf("c03d%d", denomN)
				denomN++
				w.Submit(u0, &tftypes.MsgCreateDenom{Metadata: meta(u0), Subdenom: sub})
				myDenoms = append(myDenoms, fmt.Sprintf("factory/%s/%s", u0.Bech32(), sub))
			case 4, 5:
				if len(myDenoms) > 0 {
					d := myDenoms[t.Intn(len(myDenoms))]
					switch t.Intn(4) {
					case 0:
						w.Submit(u0, &tftypes.MsgMint{Metadata: meta(u0), Amount: sdk.NewCoin(d, math.NewInt(1000))})
					case 1:
						w.Submit(u0, &tftypes.MsgBurn{Metadata: meta(u0), Amount: sdk.NewCoin(d, math.NewInt(10))})
					case 2:
						w.Submit(u0, &tftypes.MsgSetDenomMetadata{Metadata: meta(u0), DenomMetadata: banktypes.Metadata{Description: "d", Base: d, Display: d, Name: d, Symbol: "S",
							DenomUnits: []*banktypes.DenomUnit{{Denom: d, Exponent: 0}}}})
					case 3:
						if t.Chance(1, 4) {
							w.Submit(u0, &tftypes.MsgChangeAdmin{Metadata: meta(u0), Denom: d, NewAdmin: u0.Bech32()})
						}
					}
				}
			case 6:
				contractN++
				w.Submit(u0, &evmtypes.MsgUploadUserSmartContractRequest{Metadata: meta(u0), Title: fmt.Sprintf("c%d", contractN), AbiJson: `[]`, Bytecode: "0x6001", ConstructorInput: "0x"})
			case 7:
				if contractN > 0 {
					id := uint64(1 + t.Intn(contractN))
					if t.Chance(1, 4) {
						w.Submit(u0, &evmtypes.MsgRemoveUserSmartContractRequest{Metadata: meta(u0), Id: id})
					} else {
						w.Submit(u0, &evmtypes.MsgDeployUserSmartContractRequest{Metadata: meta(u0), Id: id, TargetChain: "eth-main"})
					}
				}
			case 8:
				w.Submit(u1, &palomatypes.MsgAddLightNodeClientLicense{Metadata: meta(u1), ClientAddress: licensee.Bech32(), Amount: sdk.NewCoin(app.BondDenom, math.NewInt(1000)), VestingMonths: 3})
				// the licensee account is funded from genesis, so it has an account: the licence is refused; a fresh one works
				fresh := world.NewAccount(r.Seed, fmt.Sprintf("lic%d", i), nil)
				w.Submit(u1, &palomatypes.MsgAddLightNodeClientLicense{Metadata: meta(u1), ClientAddress: fresh.Bech32(), Amount: sdk.NewCoin(app.BondDenom, math.NewInt(1000)), VestingMonths: 3})
			case 9:
				if t.Draw(2) == 0 {
					w.Submit(licensee, &palomatypes.MsgRegisterLightNodeClient{Metadata: meta(licensee)})
				} else {
					w.Submit(licensee, &palomatypes.MsgAuthLightNodeClient{Metadata: meta(licensee)})
				}
			case 10:
				v := w.Vals[t.Intn(len(w.Vals)-1)]
				w.Submit(v.Acct, &palomatypes.MsgAddStatusUpdate{Metadata: meta(v.Acct), Status: "s", Level: palomatypes.MsgAddStatusUpdate_LEVEL_INFO})
			case 11:
				if compass, _, ok := w.CompassOf("eth-main"); ok {
					data, _ := evmsimPack("emit_nodesale_event", common.BytesToAddress(t.Bytes(20)), palomaReceiver(world.NewAccount(r.Seed, fmt.Sprintf("buyer%d", i), nil).Addr), big.NewInt(1), big.NewInt(int64(1+t.Intn(20))))
					w.Chains["eth-main"].Call(saleKey, compass, data)
				}
			}
		}
		if !grantDone && grantRes.Accepted() {
			if gr := w.Result(grantRes.Tx); gr != nil && gr.Code == 0 {
				grantDone = true
			}
		}
		if grantDone && t.Chance(1, 15) {
			// an honest transaction signed by a fee-grantee of its creator must be accepted
			msg := &skywaytypes.MsgSendToRemote{Metadata: valsettypes.MsgMetadata{Creator: u1.Bech32(), Signers: []string{granted.Bech32()}}, EthDest: common.BytesToAddress(t.Bytes(20)).Hex(),
				Amount: sdk.NewCoin(w.Tokens[0].Denom, math.NewInt(5)), ChainReferenceId: "eth-main"}
			if !granted.Known {
				w.N.SyncAccount(granted)
			}
			if tx, err := w.N.BuildTx([]*world.Account{granted}, nil, msg); err == nil {
				res, err := w.N.CheckTx(tx)
				if err == nil && res.Code == 0 {
					granted.Seq++
					r.Stats.Probe("grantee_tx_accepted")
				} else if err == nil && strings.Contains(res.Log, "no signature from granted address") {
					viols = append(viols, vio("C03", "grantee-blocked", w.N.Height, nil, "a transaction signed by an address holding a fee grant from its creator was refused by the authorisation decorator: "+res.Log))
				}
			}
		}
		w.Gov.Tick()
		br := w.Step()
		if w.Aborted {
			break
		}
		w.AfterBlock(br)
		// ---- attack: one forged transaction, alone in its block
		if i < 12 || !t.Chance(2, 3) {
			continue
		}
		urls := core.SortedKeys(templates)
		if len(urls) == 0 {
			continue
		}
		url := urls[t.Intn(len(urls))]
		tp := templates[url][t.Intn(len(templates[url]))]
		if t.Chance(1, 12) {
			// error data for a live queue message, attributed to an active validator (relayers only send it when a relay fails)
			qn := queueName("eth-main")
			if msgs, err := w.N.App.ConsensusKeeper.GetMessagesFromQueue(w.Ctx(), qn, 0); err == nil && len(msgs) > 0 {
				v0 := w.Vals[0]
				url = "/palomachain.paloma.consensus.MsgSetErrorData"
				tp = c03Template{msg: &consensustypes.MsgSetErrorData{Metadata: meta(v0.Acct), MessageID: msgs[t.Intn(len(msgs))].GetId(), QueueTypeName: qn, Data: []byte("boom")}, actor: v0.Acct}
				r.Stats.Probe("errordata_template_built")
			}
		}
		tp.val = valOf(tp.actor)
		from := formsOf(tp.actor, tp.val)
		me := formsOf(attacker, nil)
		var forged proto.Message
		variant := ""
		switch t.Intn(4) {
		case 0: // the honest message verbatim, but signed by the attacker
			forged, _ = substitute(tp.msg.(proto.Message), idForms{}, idForms{})
			setMetadata(forged, tp.actor.Bech32(), []string{attacker.Bech32()})
			variant = "verbatim, signer=attacker"
		case 1: // the attacker as creator, everything else still naming the honest principal and its objects
			forged, _ = substitute(tp.msg.(proto.Message), idForms{}, idForms{})
			setMetadata(forged, attacker.Bech32(), []string{attacker.Bech32()})
			variant = "creator=attacker, rest verbatim"
		case 2: // the attacker as creator, identity fields re-pointed at another principal
			var other idForms
			var oname string
			if tp.val != nil || t.Draw(3) == 0 {
				other, oname = formsOf(stalled.Acct, stalled), "stalled validator"
			} else if t.Draw(2) == 0 {
				other, oname = formsOf(u0, nil), "user0"
			} else {
				other, oname = idForms{acc: ga, valoper: sdk.ValAddress(authorityAddr()).String(), raw: authorityAddr(), eth: map[string]string{}}, "governance"
			}
			forged, _ = substitute(tp.msg.(proto.Message), from, other)
			setMetadata(forged, attacker.Bech32(), []string{attacker.Bech32()})
			variant = "creator=attacker, identity fields=" + oname
		case 3: // every identity of the honest principal replaced by the attacker's: only object ids still point at others
			forged, _ = substitute(tp.msg.(proto.Message), from, me)
			setMetadata(forged, attacker.Bech32(), []string{attacker.Bech32()})
			variant = "all identities=attacker, object ids verbatim"
		}
		if t.Draw(2) == 1 {
			if perturb(t, forged) > 0 {
				variant += ", payload values changed"
			}
		}
		attacks++
		r.Stats.Probe("attacks")
		if !attacker.Known {
			w.N.SyncAccount(attacker)
		}
		// the forged message travels alone, or in one transaction with a message that is legitimately the attacker's own
		// (authorisation must be decided per message, not per transaction)
		txMsgs := []sdk.Msg{forged.(sdk.Msg)}
		own := func() sdk.Msg {
			return &palomatypes.MsgAddStatusUpdate{Metadata: meta(attacker), Status: "hello", Level: palomatypes.MsgAddStatusUpdate_LEVEL_INFO}
		}
		switch t.Intn(4) {
		case 1:
			txMsgs = []sdk.Msg{own(), forged.(sdk.Msg)}
			variant += ", after an own message in the same tx"
		case 2:
			txMsgs = []sdk.Msg{forged.(sdk.Msg), own()}
			variant += ", before an own message in the same tx"
		case 3:
			if t.Draw(2) == 1 {
				txMsgs = []sdk.Msg{own(), forged.(sdk.Msg), own()}
				variant += ", between own messages in the same tx"
			}
		}
		tx, err := w.N.BuildTx([]*world.Account{attacker}, nil, txMsgs...)
		if err != nil {
			r.Stats.Probe("attack_unbuildable")
			continue
		}
		res, err := w.N.CheckTx(tx)
		if err != nil || res.Code != 0 {
			r.Trace.Event("attack-refused", "%s %s", url, variant)
			continue
		}
		attacker.Seq++
		accepted++
		r.Stats.Probe("attacks_past_ante")
		before := map[string]map[string]string{}
		for _, p := range principals {
			before[p.name] = victimView(w.Bridge, p)
		}
		snap := copyDB(w.N.DB)
		preHeight := w.N.Height
		w.N.Record, w.N.Blocks = true, nil
		abr := w.Block() // only the forged transaction; relayers and users are quiet
		w.N.Record = false
		if w.Aborted {
			break
		}
		w.AfterBlock(abr)
		ar := w.Result(tx)
		if ar == nil || ar.Code != 0 {
			r.Trace.Event("attack-failed", "%s %s", url, variant)
			continue
		}
		succeeded++
		short := strings.TrimPrefix(url, "/palomachain.paloma.")
		r.Stats.Probe("attacks_executed")
		r.Stats.Probe("attack_ok_" + short)
		suspicious := 0
		for _, p := range principals {
			suspicious += len(viewDiff(before[p.name], victimView(w.Bridge, p)))
		}
		r.Trace.Event("attack-executed", "%s %s changes=%d", url, variant, suspicious)
		if suspicious == 0 {
			continue
		}
		// control: the same block without the forged transaction, on a copy of the state
		controls++
		r.Stats.Probe("control_executions")
		ctrl := world.NewNode(snap, w.N.ChainID)
		ctrl.Height = ctrl.App.LastBlockHeight()
		if ctrl.Height != preHeight || len(w.N.Blocks) == 0 {
			core.Harnessf("control node at height %d, expected %d (%d recorded blocks)", ctrl.Height, preHeight, len(w.N.Blocks))
		}
		rec := w.N.Blocks[len(w.N.Blocks)-1]
		rec.Txs = nil
		cres := ctrl.ReplayBlock(rec, false)
		if cres.Err != nil || cres.Panic != "" {
			core.Harnessf("control block failed: %v %s", cres.Err, cres.Panic)
		}
		cb := &Bridge{Sim: &Sim{N: ctrl, R: r, T: t}, Order: w.Order, BCfg: w.BCfg}
		ctrlViews := map[string]map[string]string{}
		for _, p := range principals {
			ctrlViews[p.name] = victimView(cb, p)
		}
		w.N.Restart() // the control application took over the process-wide event bus: rebuild the primary
		if w.Sim.OnRestart != nil {
			w.Sim.OnRestart()
		}
		w.N.SyncAccount(attacker)
		var real []string
		for _, p := range principals {
			for _, x := range viewDiff(ctrlViews[p.name], victimView(w.Bridge, p)) {
				if strings.Contains(x, "skyway/confirm/") && confirmIsSelfSigned(w, x) {
					continue // a batch confirmation carrying the validator's own external signature over the checkpoint
				}
				real = append(real, p.name+": "+x)
			}
		}
		if len(real) > 0 {
			viols = append(viols, vio("C03", "acted-for-another-principal/"+short, abr.Height, map[string]string{"msg": short, "variant": variant},
				fmt.Sprintf("a transaction signed only by %s (%s; %s; template by %s) changed state held for another principal; compared with the same block without it: %s", attacker.Name, short, variant, tp.actor.Name, strings.Join(limitStr(real, 6), " | "))))
		}
	}
	w.abortNote("C03")
	// message types of the chain that the harvested traffic never produced: not attacked in this run
	for _, u := range registeredPalomaMsgs(w.N.App) {
		if _, ok := templates[u]; !ok {
			r.Stats.Probe("no_template:" + u[len("/palomachain.paloma."):])
		}
	}
	if succeeded > 0 {
		r.Stats.Probe("target")
	}
	r.Sample = []string{fmt.Sprintf("%d blocks, %d message types harvested, %d forged transactions: %d passed the ante chain, %d executed successfully, %d control executions", r.Blocks, len(templates), attacks, accepted, succeeded, controls)}
	return viols
}

func limitStr(s []string, n int) []string {
	if len(s) > n {
		return append(s[:n:n], fmt.Sprintf("... and %d more", len(s)-n))
	}
	return s
}

func authorityAddr() sdk.AccAddress {
	a, _ := sdk.AccAddressFromBech32(GovAuthority())
	return a
}

func mustGrant(granter, grantee *world.Account) sdk.Msg {
	m, err := feegrant.NewMsgGrantAllowance(&feegrant.BasicAllowance{}, granter.Addr, grantee.Addr)
	if err != nil {
		panic(err)
	}
	return m
}

// confirmIsSelfSigned checks the allowance "a batch confirmation stored for B whose signature verifies under B's registered key".
func confirmIsSelfSigned(w *SkyWorld, diffLine string) bool {
	ctx := w.Ctx()
	ok := false
	w.N.App.SkywayKeeper.IterateBatchConfirms(ctx, func(key []byte, c skywaytypes.MsgConfirmBatch) bool {
		if !strings.Contains(diffLine, hex.EncodeToString(key)) {
			return false
		}
		contract, err := skywaytypes.NewEthAddress(c.TokenContract)
		if err != nil {
			return true
		}
		bt, err := w.N.App.SkywayKeeper.GetOutgoingTXBatch(ctx, *contract, c.Nonce)
		if err != nil || bt == nil {
			return true
		}
		sig, err := hex.DecodeString(c.Signature)
		if err != nil {
			return true
		}
		who, rec := recoverEth(bt.BytesToSign, sig)
		ok = rec && who == common.HexToAddress(c.EthSigner)
		return true
	})
	return ok
}

func registeredPalomaMsgs(a *app.App) []string {
	var out []string
	for _, u := range a.InterfaceRegistry().ListImplementations(sdk.MsgInterfaceProtoName) {
		if strings.HasPrefix(u, "/palomachain.paloma.") {
			out = append(out, u)
		}
	}
	sort.Strings(out)
	return out
}

var _ = tftypes.ModuleName
