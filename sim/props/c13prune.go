package props

import (
	"fmt"
	consensustypes "github.com/palomachain/paloma/v2/x/consensus/types"
	"strings"

	"cosmossdk.io/math"
	valsettypes "github.com/palomachain/paloma/v2/x/valset/types"
	"verifsim/core"
)

// c13Prune is the second half of C13: when an undelivered or contested message is pruned (age > 300 blocks,
// at a height divisible by 50), validators that supplied evidence for it are not jailed, and nobody is jailed
// when fewer than 10% of snapshot shares attested.
//
// Scenario: after the bridge is up, only a tape-chosen subset of relayers keeps attesting (possibly with
// conflicting evidence), so relayed messages never reach 2/3 and sit in the queue until they are pruned.
func c13Prune(r *core.Run) []*core.Violation { return pruneWorld(r, "C13") }

// pruneWorld runs the prune scenario for C13 (its own oracle) or for C09 (block production must survive the pruning
// of every kind of stale message).
func pruneWorld(r *core.Run, prop string) []*core.Violation {
	t := r.Tape
	r.Profile = "prune"
	cfg := BridgeCfg{Chains: []ChainSpec{{"eth-main", 1}}}
	cfg.NVals = 6
	cfg.NUsers = 2
	cfg.InitialHeight = 40
	// shares in percent of the total: subsets give 0%, 4%, 6%, 10%, 14%, 25% ... of the snapshot
	for _, pc := range []int64{40, 25, 15, 10, 6, 4} {
		cfg.Stakes = append(cfg.Stakes, math.NewInt(pc*100_000_000))
	}
	w := NewJobWorld(r, cfg)
	if w.Aborted {
		w.abortNote(prop)
		return nil
	}
	// the relayers report a failed delivery (error data) instead of a transaction in some runs
	if t.Draw(3) == 1 {
		for _, p := range w.Pigeons {
			p.Hooks.Relay = func(p *Pigeon, chain string, m *consensustypes.MessageWithSignatures) bool {
				if p.send("errordata", &consensustypes.MsgSetErrorData{Metadata: p.meta(), MessageID: m.Id, QueueTypeName: queueName(chain), Data: []byte("execution reverted")}) {
					r.Stats.Probe("relay_reported_error")
				}
				return true
			}
		}
	}
	// who keeps attesting: none / below 10% / between 10% and 2/3
	var attesters []int
	switch t.Intn(4) {
	case 0:
	case 1:
		attesters = [][]int{{5}, {4}}[t.Intn(2)] // 4% or 6%: always below 10%
	case 2:
		attesters = [][]int{{3}, {4, 5}, {3, 5}, {2}, {1}}[t.Intn(5)] // 10%, 10%, 14%, 15%, 25%
	default:
		attesters = [][]int{{0}, {0, 3}, {1, 2, 3}, {0, 4, 5}, {1, 2, 4, 5}}[t.Intn(5)] // 40% .. 60%: still below 2/3
	}
	isAtt := map[int]bool{}
	for _, i := range attesters {
		isAtt[i] = true
	}
	split := t.Draw(2) == 1
	for i, p := range w.Pigeons {
		p.NoAttest = !isAtt[i]
		if isAtt[i] && split && i == attesters[len(attesters)-1] && len(attesters) > 1 {
			p.Hooks.Evidence = w.byzEvidence(i) // contested: one attester disagrees
		}
	}
	var viols []*core.Violation
	jailedBefore := map[string]bool{}
	jailedNow := func() map[string]bool {
		out := map[string]bool{}
		ctx := w.Ctx()
		for _, v := range w.Vals {
			sv, err := w.N.App.StakingKeeper.GetValidator(ctx, v.Acct.ValAddr())
			out[v.Acct.ValBech32()] = err == nil && sv.Jailed
		}
		return out
	}
	jailedBefore = jailedNow()
	prevE := w.eligibility()
	nBlocks := 365 + t.Intn(60)
	for i := 0; i < nBlocks && !w.Aborted && len(viols) == 0; i++ {
		if i < 25 {
			w.RandomJobTraffic(2)
		}
		if len(attesters) > 0 && t.Chance(1, 10) {
			w.reAttest(attesters[t.Intn(len(attesters))]) // a retry or a correction: the attester must still count once
		}
		br := w.Step()
		if w.Aborted {
			break
		}
		h := br.Height
		now := jailedNow()
		var newlyJailed []string
		reasons := map[string]string{}
		for _, v := range w.Vals {
			a := v.Acct.ValBech32()
			if now[a] && !jailedBefore[a] {
				newlyJailed = append(newlyJailed, a)
				if res, err := w.N.App.ValsetKeeper.GetValidatorJailReason(w.Ctx(), &valsettypes.QueryGetValidatorJailReasonRequest{ValAddress: v.Acct.ValAddr()}); err == nil {
					reasons[a] = res.Reason
				}
				r.Trace.Event("jailed", "%s h=%d reason=%q", v.Acct.Name, h, reasons[a])
			}
		}
		// messages that left the queue in this block because they were pruned
		for _, id := range SortedIDs(w.Prev) {
			q := w.Prev[id]
			if _, still := w.Cur[id]; still {
				continue
			}
			if !(h%50 == 0 && h-q.Raw.AddedAtBlockHeight > 300) {
				continue
			}
			delivered := q.Raw.PublicAccessData != nil || q.Raw.ErrorData != nil
			if q.Raw.ErrorData != nil {
				r.Stats.Probe("c13_pruned_with_error_report")
			}
			att := map[string]bool{}
			sum := math.ZeroInt()
			for _, e := range q.Raw.Evidence {
				a := e.ValAddress.String()
				if !att[a] {
					att[a] = true
					if s, ok := prevE.shares[a]; ok {
						sum = sum.Add(s)
					}
				}
			}
			below10 := sum.MulRaw(10).LT(prevE.total)
			r.Stats.Probe("c13_pruned_message")
			switch {
			case !delivered:
				r.Stats.Probe("c13_pruned_undelivered")
			case len(att) == 0:
				r.Stats.Probe("c13_pruned_contested_no_evidence")
			case below10:
				r.Stats.Probe("c13_pruned_contested_below_10pct")
			default:
				r.Stats.Probe("c13_pruned_contested_10pct_or_more")
			}
			r.Trace.Event("pruned", "msg=%d delivered=%v attesters=%d shares=%s/%s", id, delivered, len(att), sum, prevE.total)
			for _, a := range newlyJailed {
				because := strings.Contains(reasons[a], fmt.Sprintf("message %d", id))
				if !because {
					continue
				}
				if att[a] {
					viols = append(viols, vio("C13", "attester-jailed-at-prune", h, nil,
						fmt.Sprintf("message %d was pruned at height %d; validator %s had supplied evidence for it and was jailed all the same (%q)", id, h, a, reasons[a])))
				}
				if !delivered {
					viols = append(viols, vio("C13", "jailed-for-undelivered-message", h, nil,
						fmt.Sprintf("message %d was never delivered (no delivery or error report) and was pruned at height %d; validator %s was jailed for it (%q)", id, h, a, reasons[a])))
				}
				if below10 {
					viols = append(viols, vio("C13", "jailed-below-10-percent", h, nil,
						fmt.Sprintf("message %d was pruned at height %d with evidence from %s of %s snapshot shares (fewer than 10%%); validator %s was jailed for not attesting (%q)", id, h, sum, prevE.total, a, reasons[a])))
				}
			}
		}
		jailedBefore = now
		prevE = w.eligibility()
	}
	if prop == "C09" {
		viols = nil
		if v := w.abortViolation(); v != nil {
			viols = append(viols, v)
		}
	} else {
		w.abortNote(prop)
	}
	if r.Stats.Probes["c13_pruned_message"] > 0 || (prop == "C09" && w.Aborted) {
		r.Stats.Probe("target")
	}
	r.Sample = []string{fmt.Sprintf("prune profile: attesters %v (split=%v), %d blocks: pruned %d (undelivered %d, contested without evidence %d, below 10%% %d, 10%% or more %d)", attesters, split, r.Blocks,
		r.Stats.Probes["c13_pruned_message"], r.Stats.Probes["c13_pruned_undelivered"], r.Stats.Probes["c13_pruned_contested_no_evidence"], r.Stats.Probes["c13_pruned_contested_below_10pct"], r.Stats.Probes["c13_pruned_contested_10pct_or_more"])}
	return viols
}
