package props

import (
	"encoding/hex"
	"fmt"
	codectypes "github.com/cosmos/cosmos-sdk/codec/types"
	"math/big"
	"os"
	"reflect"

	"cosmossdk.io/math"
	sdk "github.com/cosmos/cosmos-sdk/types"
	govv1 "github.com/cosmos/cosmos-sdk/x/gov/types/v1"
	stakingtypes "github.com/cosmos/cosmos-sdk/x/staking/types"
	"github.com/ethereum/go-ethereum/common"
	"github.com/palomachain/paloma/v2/app"
	skywaytypes "github.com/palomachain/paloma/v2/x/skyway/types"
	valsettypes "github.com/palomachain/paloma/v2/x/valset/types"
	"verifsim/core"
)

func init() {
	Register("C02", func(r *core.Run) []*core.Violation { return attScenario(r, "C02") })
	Register("C11", func(r *core.Run) []*core.Violation { return attScenario(r, "C11") })
}

// mutateClaim returns a copy of claim with one effect-bearing field (chosen from the tape by reflection) altered.
func mutateClaim(t *core.Tape, claim sdk.Msg) (sdk.Msg, string) {
	src := reflect.ValueOf(claim).Elem()
	cp := reflect.New(src.Type())
	cp.Elem().Set(src)
	var fields []int
	for i := 0; i < src.NumField(); i++ {
		n := src.Type().Field(i).Name
		if n == "Orchestrator" || n == "Metadata" {
			continue
		}
		fields = append(fields, i)
	}
	fi := fields[t.Intn(len(fields))]
	f := cp.Elem().Field(fi)
	name := src.Type().Field(fi).Name
	switch v := f.Interface().(type) {
	case uint64:
		f.SetUint(v + 1 + uint64(t.Intn(3)))
	case string:
		if name != "ChainReferenceId" && t.Draw(3) == 1 {
			// the same text with one letter in the other case (addresses are compared exactly when the claim is applied:
			// a mixed-case bech32 receiver does not decode, so the deposit would go elsewhere)
			for tries := 0; tries < 8 && len(v) > 0; tries++ {
				i := t.Intn(len(v))
				c := v[i]
				if c >= 'a' && c <= 'z' {
					f.SetString(v[:i] + string(c-32) + v[i+1:])
					return cp.Interface().(sdk.Msg), name + " (letter case)"
				}
				if c >= 'A' && c <= 'Z' {
					f.SetString(v[:i] + string(c+32) + v[i+1:])
					return cp.Interface().(sdk.Msg), name + " (letter case)"
				}
			}
		}
		if name != "ChainReferenceId" && t.Draw(6) == 5 {
			// the same text with white space around it (it no longer decodes as an address when the claim is applied)
			f.SetString([]string{v + " ", " " + v, v + "\t", v + "\n"}[t.Intn(4)])
			return cp.Interface().(sdk.Msg), name + " (white space)"
		}
		switch {
		case name == "ChainReferenceId":
			f.SetString(v) // the chain is part of the storage location, not of the body: leave
			return nil, ""
		case len(v) == 42 && v[:2] == "0x":
			f.SetString(flipAddr(v))
		case name == "CompassId":
			f.SetString(flipFirst(v))
		default:
			// another (valid) account address
			f.SetString(sdk.AccAddress(t.Bytes(20)).String())
		}
	case math.Int:
		f.Set(reflect.ValueOf(v.AddRaw(int64(1 + t.Intn(1000)))))
	default:
		return nil, ""
	}
	return cp.Interface().(sdk.Msg), name
}

type pendingOverride struct {
	p      *Proposal
	chain  string
	target uint64
	done   bool
}

func attScenario(r *core.Run, prop string) []*core.Violation {
	t := r.Tape
	cfg := BridgeCfg{Chains: []ChainSpec{{"eth-main", 1}}}
	if t.Draw(3) == 2 {
		cfg.Chains = append(cfg.Chains, ChainSpec{"bnb-main", 56})
	}
	cfg.NVals = 4 + t.Intn(4)
	cfg.NUsers = 3
	cfg.InitialHeight = 40
	cfg.JumpPerMille = 6
	// stake layouts incl. boundary: some subset at exactly 66 % / 67 %
	switch t.Intn(4) {
	case 1:
		for i := 0; i < cfg.NVals; i++ {
			cfg.Stakes = append(cfg.Stakes, math.NewInt(int64(1_000_000_000)*int64(i+1)))
		}
	case 2: // 33 / 33 / 34 and dust
		base := []int64{33_000_000, 33_000_000, 34_000_000}
		for i := 0; i < cfg.NVals; i++ {
			if i < 3 {
				cfg.Stakes = append(cfg.Stakes, math.NewInt(base[i]*100))
			} else {
				cfg.Stakes = append(cfg.Stakes, math.NewInt(1_000_000))
			}
		}
	case 3: // 66 / 17 / 17
		for i := 0; i < cfg.NVals; i++ {
			s := int64(1_000_000) * 17
			if i == 0 {
				s = 66_000_000
			}
			cfg.Stakes = append(cfg.Stakes, math.NewInt(s*50))
		}
	}
	w := NewSkyWorld(r, cfg, 1+t.Intn(2), prop)
	if w.Aborted {
		w.abortNote(prop)
		return nil
	}
	aw := NewAttWatcher(w)
	// light-node sales: configure funders / fee granter / sale contract through governance
	saleKey := w.EvmUsers[0]
	funder := w.Users[1]
	w.Gov.Propose("feegranter", nil, Legacy(palomaFeegranterProposal(w.Users[2].Bech32())))
	w.Gov.Propose("funders", nil, Legacy(palomaFundersProposal([]string{funder.Bech32()})))
	var contracts []*skywaytypes.LightNodeSaleContract
	for _, c := range w.Order {
		contracts = append(contracts, &skywaytypes.LightNodeSaleContract{ChainReferenceId: c, ContractAddress: saleKey.Addr.Hex()})
	}
	w.Gov.Propose("sale-contracts", nil, Legacy(&skywaytypes.SetLightNodeSaleContractsProposal{Title: "sale-contracts", Description: "d", LightNodeSaleContracts: contracts}))

	// Byzantine validators
	byz := map[int]bool{}
	nByz := t.Intn(3)
	if prop == "C11" {
		nByz = 1 + t.Intn(2)
	}
	for i := 0; i < nByz; i++ {
		vi := cfg.NVals - 1 - i // the smallest stakes are at the end in most layouts
		byz[vi] = true
		p := w.Pigeons[vi]
		p.ClaimsPerTick = 6
		p.Hooks.Claim = func(chain string, honest sdk.Msg) sdk.Msg {
			if t.Draw(3) == 0 {
				return honest
			}
			m, field := mutateClaim(t, honest)
			if m == nil {
				return honest
			}
			r.Stats.Fault("claim_variant_" + field)
			r.Trace.Event("byz-claim", "%s field=%s", p.V.Acct.Name, field)
			return m
		}
	}
	for vi, p := range w.Pigeons {
		if !byz[vi] {
			p.ClaimDelay = uint64(1 + t.Intn(3)) // honest relayers wait for a few confirmations: liars can front-run
			p.ClaimsPerTick = 1 + t.Intn(3)
		}
	}
	var viols []*core.Violation
	report := func(vs []*core.Violation) {
		for _, v := range vs {
			if v.Property == prop {
				viols = append(viols, v)
			} else {
				r.Note(v.Property, v.Class, "%s", v.Detail)
			}
		}
	}
	nBlocks := 100 + t.Intn(120)
	lingerUntil := int64(0)
	var overrides []*pendingOverride
	for i := 0; i < nBlocks && !w.Aborted && len(viols) == 0; i++ {
		w.RandomClientOps()
		// node sales
		if t.Chance(1, 10) {
			chain := w.Order[t.Intn(len(w.Order))]
			if compass, _, ok := w.CompassOf(chain); ok {
				from := saleKey
				if t.Draw(4) == 0 {
					from = w.EvmUsers[1] // an unauthorised contract
				}
				buyer := sdk.AccAddress(t.Bytes(20))
				data, _ := evmsimPack("emit_nodesale_event", common.BytesToAddress(t.Bytes(20)), palomaReceiver(buyer), big.NewInt(1), big.NewInt(int64(1+t.Intn(50))))
				w.Chains[chain].Call(from, compass, data)
				r.Stats.Probe("node_sales_emitted")
			}
		}
		// slow / partitioned relayers make attestations linger below the threshold
		if lingerUntil == 0 && t.Chance(1, 25) {
			k := 1 + t.Intn(cfg.NVals/2+1)
			for j := 0; j < k; j++ {
				w.Pigeons[t.Intn(cfg.NVals)].EVMPartitioned = true
			}
			lingerUntil = w.N.Height + int64(20+t.Intn(50))
			r.Stats.Fault("relayers_partitioned")
			r.Trace.Event("partition", "until=%d", lingerUntil)
		}
		if lingerUntil != 0 && w.N.Height >= lingerUntil {
			for _, p := range w.Pigeons {
				p.EVMPartitioned = false
			}
			lingerUntil = 0
			r.Trace.Event("heal", "")
		}
		// a validator that has voted for lingering claims is jailed (it signed a bridge checkpoint the chain never issued and
		// somebody reports it): its vote stays on the pending attestations, its power must no longer count
		if lingerUntil != 0 && t.Chance(1, 6) {
			var cands []int
			for vi, p := range w.Pigeons {
				if !p.EVMPartitioned && !p.Down {
					cands = append(cands, vi)
				}
			}
			if len(cands) > 1 {
				vi := cands[t.Intn(len(cands))]
				if jailByEvidence(w, vi, w.Order[t.Intn(len(w.Order))]) {
					r.Stats.Fault("voter_jailed_by_evidence")
					r.Trace.Event("jail-voter", "%s", w.Vals[vi].Acct.Name)
				}
			}
		}
		// power changes between vote and tally
		if t.Chance(1, 8) {
			u := w.Users[t.Intn(len(w.Users))]
			vi := t.Intn(cfg.NVals)
			amt := int64(1_000_000 * (1 + t.Intn(3000)))
			if t.Draw(3) == 0 {
				w.Submit(w.Vals[vi].Acct, stakingtypes.NewMsgUndelegate(w.Vals[vi].Acct.Bech32(), w.Vals[vi].Acct.ValBech32(), sdk.NewCoin(app.BondDenom, math.NewInt(amt))))
			} else {
				w.Submit(u, stakingtypes.NewMsgDelegate(u.Bech32(), w.Vals[vi].Acct.ValBech32(), sdk.NewCoin(app.BondDenom, math.NewInt(amt))))
			}
			r.Stats.Probe("power_changes")
		}
		// governance resets of the oracle cursor: same value, backwards, forwards
		if !w.Gov.Busy() && t.Chance(1, 30) {
			chain := w.Order[t.Intn(len(w.Order))]
			cur, _ := w.N.App.SkywayKeeper.GetLastObservedSkywayNonce(w.Ctx(), chain)
			target := cur
			switch t.Draw(4) {
			case 1:
				if cur > 0 {
					target = cur - 1
				}
			case 2:
				target = cur + 1
			}
			name := fmt.Sprintf("nonce-override %s %d->%d", chain, cur, target)
			pr := w.Gov.Propose(name, nil, &skywaytypes.MsgNonceOverrideProposal{Metadata: valsettypes.MsgMetadata{Creator: GovAuthority(), Signers: []string{GovAuthority()}}, ChainReferenceId: chain, Nonce: target})
			overrides = append(overrides, &pendingOverride{pr, chain, target, false})
		}
		w.Gov.Tick()
		br := w.Step()
		if w.Aborted {
			break
		}
		for _, v := range w.AfterBlock(br) {
			r.Note("C01", v.Class, "%s", v.Detail)
		}
		// a cursor override executed by this block's gov end-blocker takes effect before the bridge end-blocker tallies
		for _, po := range overrides {
			if po.done || po.p.ID == 0 {
				continue
			}
			if gp, err := w.N.App.GovKeeper.Proposals.Get(w.Ctx(), po.p.ID); err == nil && gp.Status == govv1.StatusPassed {
				aw.Last[po.chain] = po.target
				aw.Epoch[po.chain]++
				po.done = true
				r.Stats.Probe("nonce_overrides")
				r.Trace.Event("nonce-override", "%s -> %d", po.chain, po.target)
			}
		}
		aw.collectVotes(br)
		aw.scan()
		if os.Getenv("VERIF_DEBUG") != "" {
			for _, chain := range w.Order {
				cur, _ := w.N.App.SkywayKeeper.GetLastObservedSkywayNonce(w.Ctx(), chain)
				var l []string
				for _, k := range core.SortedKeys(aw.Cur) {
					c := aw.Cur[k]
					if c.Chain == chain && c.Nonce+2 > cur {
						l = append(l, fmt.Sprintf("%d:%v:%v", c.Nonce, c.Observed, c.Votes))
					}
				}
				r.Trace.Event("debug-cursor", "h=%d %s cursor=%d %v", br.Height, chain, cur, l)
			}
		}
		report(aw.OracleC02(br))
		report(aw.OracleC11(br))
	}
	w.abortNote(prop)
	target := map[string]string{"C02": "c02_observations_checked", "C11": "c11_pooled_votes_checked"}[prop]
	if r.Stats.Probes[target] > 0 {
		r.Stats.Probe("target")
	}
	r.Sample = []string{fmt.Sprintf("%d chains, %d vals (%d Byzantine), %d blocks: votes accepted %d, observations checked %d (with duplicate votes in list %d), pooled votes checked %d, nonce overrides %d, power changes %d, node sales %d, deposits observed %d",
		len(cfg.Chains), cfg.NVals, nByz, r.Blocks, r.Stats.Probes["votes_accepted"], r.Stats.Probes["c02_observations_checked"], r.Stats.Probes["c02_duplicate_votes_in_list"],
		r.Stats.Probes["c11_pooled_votes_checked"], r.Stats.Probes["nonce_overrides"], r.Stats.Probes["power_changes"], r.Stats.Probes["node_sales_emitted"], r.Stats.Probes["deposit_observed"])}
	return viols
}

// jailByEvidence reports a (deliberately produced) signature of validator vi over a bridge batch the chain never issued.
func jailByEvidence(w *SkyWorld, vi int, chain string) bool {
	ctx := w.Ctx()
	ci, err := w.N.App.EvmKeeper.GetChainInfo(ctx, chain)
	if err != nil || len(w.Tokens) == 0 {
		return false
	}
	erc20, ok := w.Tokens[0].ERC20[chain]
	if !ok {
		return false
	}
	key := w.Vals[vi].Eth[chain]
	user := w.Users[0]
	fake := skywaytypes.OutgoingTxBatch{
		BatchNonce: 900_000 + uint64(w.N.Height), BatchTimeout: 1 << 40, TokenContract: erc20.Hex(), PalomaBlockCreated: uint64(w.N.Height),
		ChainReferenceId: chain, AssigneeRemoteAddress: key.Addr.Bytes(),
		Transactions: []skywaytypes.OutgoingTransferTx{{Id: 900_000 + uint64(w.N.Height), Sender: user.Bech32(), DestAddress: common.BytesToAddress([]byte{7, 7, 7}).Hex(),
			Erc20Token: skywaytypes.ERC20Token{Contract: erc20.Hex(), Amount: math.NewInt(5), ChainReferenceId: chain}, BridgeTaxAmount: math.ZeroInt()}},
	}
	dig := batchDigest(&fake, ci.SmartContractUniqueID)
	subj, err := codectypes.NewAnyWithValue(&fake)
	if err != nil {
		return false
	}
	res := w.Submit(user, &skywaytypes.MsgSubmitBadSignatureEvidence{Metadata: meta(user), Subject: subj, Signature: hex.EncodeToString(key.SignEthMessage(dig)), ChainReferenceId: chain})
	return res.Accepted()
}
