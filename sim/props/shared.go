package props

import (
	"github.com/cosmos/cosmos-sdk/client"
	sdk "github.com/cosmos/cosmos-sdk/types"
	"github.com/cosmos/cosmos-sdk/types/tx/signing"
	"verifsim/world"
)

var codecNode *world.Node

// Init creates process-wide helpers eagerly so that no run pays (or observes)
// their lazy construction.
func Init() { txConfig() }

// txConfig returns the application's TxConfig (from a never-run App instance).
func txConfig() client.TxConfig {
	if codecNode == nil {
		codecNode = world.NewNode(nil, "codec-only")
	}
	return codecNode.App.TxConfig()
}

// unsignedTx builds an sdk.Tx carrying msgs with one signer info (pubkey +
// sequence) and no signature bytes: all the mempool looks at.
func unsignedTx(acct *world.Account, seq uint64, msgs ...sdk.Msg) sdk.Tx {
	b := txConfig().NewTxBuilder()
	if err := b.SetMsgs(msgs...); err != nil {
		panic(err)
	}
	if err := b.SetSignatures(signing.SignatureV2{
		PubKey:   acct.Priv.PubKey(),
		Data:     &signing.SingleSignatureData{SignMode: signing.SignMode_SIGN_MODE_DIRECT},
		Sequence: seq,
	}); err != nil {
		panic(err)
	}
	return b.GetTx()
}
