package props

import (
	"fmt"
	cmtproto "github.com/cometbft/cometbft/proto/tendermint/types"
	keeperutil "github.com/palomachain/paloma/v2/util/keeper"
	"math/big"
	"strconv"
	"strings"

	"cosmossdk.io/math"
	sdk "github.com/cosmos/cosmos-sdk/types"
	"github.com/ethereum/go-ethereum/common"
	skywaytypes "github.com/palomachain/paloma/v2/x/skyway/types"
	tftypes "github.com/palomachain/paloma/v2/x/tokenfactory/types"
	"verifsim/core"
	"verifsim/world"
)

func init() { Register("C15", c15) }

// window lengths in blocks (docs: a day is 57 600 blocks of 1.5 s)
var c15Period = map[skywaytypes.LimitPeriod]int64{
	skywaytypes.LimitPeriod_DAILY:   57_600,
	skywaytypes.LimitPeriod_WEEKLY:  57_600 * 7,
	skywaytypes.LimitPeriod_MONTHLY: 57_600 * 30,
	skywaytypes.LimitPeriod_YEARLY:  57_600 * 365,
}

type c15Cfg struct {
	rate      *big.Rat // nil = no tax configured
	taxExempt map[string]bool
	limitSet  bool
	limit     math.Int
	period    skywaytypes.LimitPeriod
	limExempt map[string]bool
	// window
	hasWin bool
	start  int64
	used   math.Int
}

type c15Op struct {
	kind   string
	user   *world.Account
	denom  string
	amount math.Int
	id     uint64
	tx     []byte
}

func c15(r *core.Run) []*core.Violation {
	t := r.Tape
	long := r.Tier == "thorough" && t.Draw(750) == 749 // genuine window roll-over: > 57 600 blocks
	cfg := BridgeCfg{Chains: []ChainSpec{{"eth-main", 1}}}
	cfg.NVals = 1
	cfg.NUsers = 4
	cfg.VotingPeriod = 0
	cfg.InitialHeight = []int64{1, 57_590, 115_190, 1_000_003, 2_000_003, 2_000_003}[t.Intn(6)]
	b := NewBridge(r, cfg) // node faults start after the set-up (a restart would drop the set-up transactions from the mempool)
	gov := NewGov(b.Sim)
	admin := b.Users[0]
	big255 := math.NewIntFromBigInt(new(big.Int).Lsh(big.NewInt(1), 255))
	nTok := 1 + t.Intn(2)
	var denoms []string
	for i := 0; i < nTok; i++ {
		sub := fmt.Sprintf("t%d", i)
		denoms = append(denoms, "factory/"+admin.Bech32()+"/"+sub)
		b.Submit(admin, &tftypes.MsgCreateDenom{Metadata: meta(admin), Subdenom: sub})
	}
	b.Block()
	for i, d := range denoms {
		b.Submit(admin, &tftypes.MsgMint{Metadata: meta(admin), Amount: sdk.NewCoin(d, big255)})
		erc := common.BytesToAddress([]byte(fmt.Sprintf("erc20-token-%d-pad-pad", i)))
		b.Submit(admin, &skywaytypes.MsgSetERC20ToTokenDenom{Metadata: meta(admin), Denom: d, ChainReferenceId: "eth-main", Erc20: erc.Hex()})
	}
	b.Block()
	share := big255.QuoRaw(8)
	for _, u := range b.Users[1:] {
		var cs sdk.Coins
		for _, d := range denoms {
			cs = cs.Add(sdk.NewCoin(d, share))
		}
		b.Submit(admin, banktypesSend(admin, u, cs))
	}
	b.Block()
	ctx := b.Ctx()
	for _, d := range denoms {
		if _, err := b.N.App.SkywayKeeper.GetERC20OfDenom(ctx, "eth-main", d); err != nil {
			core.Harnessf("setup: %v", err)
		}
	}
	b.Sim.Cfg.RestartPerMille, b.Sim.Cfg.CrashPerMille = 8, 8
	model := map[string]*c15Cfg{}
	for _, d := range denoms {
		model[d] = &c15Cfg{taxExempt: map[string]bool{}, limExempt: map[string]bool{}}
	}
	bal := map[string]map[string]math.Int{}
	for _, u := range b.Users {
		bal[u.Bech32()] = map[string]math.Int{}
		for _, d := range denoms {
			bal[u.Bech32()][d] = b.N.App.BankKeeper.GetBalance(ctx, u.Addr, d).Amount
		}
	}
	type poolEntry struct {
		sender string
		denom  string
		amount math.Int
		tax    math.Int
	}
	pool := map[uint64]*poolEntry{}
	var pending []*c15Op
	forget := false
	b.Sim.OnRestart = func() {
		for _, u := range b.Users {
			b.N.SyncAccount(u)
		}
		for _, v := range b.Vals {
			b.N.SyncAccount(v.Acct)
		}
		forget = true
	}
	var viols []*core.Violation
	rates := []string{"0.2", "1/3", "0", "7/2", "0.000000000000000001", "123456789/1000000007", "1", "0.999999999999999999", "2/7", "0.05"}
	amounts := func() math.Int {
		switch t.Draw(8) {
		case 0:
			return math.NewInt(1)
		case 1:
			return math.NewInt(int64(2 + t.Intn(9)))
		case 2:
			return math.NewIntFromBigInt(new(big.Int).Lsh(big.NewInt(1), uint(200+t.Intn(54)))) // up to ~2^253
		case 3:
			return math.NewIntFromBigInt(new(big.Int).Sub(new(big.Int).Lsh(big.NewInt(1), uint(60+t.Intn(100))), big.NewInt(int64(t.Intn(3)))))
		default:
			return math.NewIntFromUint64(1 + t.Uint64()%1_000_000_000_000)
		}
	}
	nBlocks := 60 + t.Intn(80)
	if long {
		nBlocks = 57_700 + t.Intn(200)
		r.Stats.Probe("long_run")
	}
	burst := 0
	for i := 0; i < nBlocks && !b.Aborted && len(viols) == 0; i++ {
		active := !long || burst > 0 || t.Chance(1, 400) || i > nBlocks-150
		if long && burst == 0 && active {
			burst = 10 + t.Intn(20)
		}
		if burst > 0 {
			burst--
		}
		if active {
			nOps := t.Intn(4)
			for j := 0; j < nOps; j++ {
				u := b.Users[t.Intn(len(b.Users))]
				d := denoms[t.Intn(len(denoms))]
				if t.Draw(5) == 4 && len(pool) > 0 {
					// cancel
					var ids []uint64
					for id := range pool {
						ids = append(ids, id)
					}
					sortU64(ids)
					id := ids[t.Intn(len(ids))]
					who := u
					if t.Draw(4) != 0 {
						for _, c := range b.Users {
							if c.Bech32() == pool[id].sender {
								who = c
							}
						}
					}
					res := b.Submit(who, &skywaytypes.MsgCancelSendToRemote{Metadata: meta(who), TransactionId: id})
					if res.Accepted() {
						pending = append(pending, &c15Op{kind: "cancel", user: who, id: id, tx: res.Tx})
					}
					continue
				}
				amt := amounts()
				m := model[d]
				if m.limitSet && t.Draw(3) == 0 {
					// aim at the limit: exactly what is left, one more, or the whole limit
					left := m.limit
					if m.hasWin {
						left = m.limit.Sub(m.used)
					}
					switch t.Draw(3) {
					case 0:
						amt = left
					case 1:
						amt = left.AddRaw(1)
					default:
						amt = m.limit
					}
					if !amt.IsPositive() {
						amt = math.NewInt(1)
					}
				}
				dest := common.BytesToAddress(t.Bytes(20))
				res := b.Submit(u, &skywaytypes.MsgSendToRemote{Metadata: meta(u), EthDest: dest.Hex(), Amount: sdk.Coin{Denom: d, Amount: amt}, ChainReferenceId: "eth-main"})
				if res.Accepted() {
					pending = append(pending, &c15Op{kind: "send", user: u, denom: d, amount: amt, tx: res.Tx})
				}
			}
			// governance: rates, exemptions, limits, periods
			if !gov.Busy() && t.Chance(1, 12) {
				d := denoms[t.Intn(len(denoms))]
				var ex []string
				for _, u := range b.Users {
					if t.Draw(4) == 0 {
						ex = append(ex, u.Bech32())
					}
				}
				if t.Draw(2) == 0 {
					rate := rates[t.Intn(len(rates))]
					gov.Propose("tax "+d[len(d)-2:]+" "+rate, func(ok bool) {
						if ok {
							rr, _ := new(big.Rat).SetString(rate)
							model[d].rate = rr
							model[d].taxExempt = map[string]bool{}
							for _, e := range ex {
								model[d].taxExempt[e] = true
							}
						}
					}, Legacy(&skywaytypes.SetBridgeTaxProposal{Title: "tax " + d[len(d)-2:] + " " + rate, Description: "d", Rate: rate, Token: d, ExemptAddresses: ex}))
				} else {
					var lim math.Int
					switch t.Draw(4) {
					case 0:
						lim = math.NewInt(int64(1 + t.Intn(1000)))
					case 1:
						lim = math.NewIntFromBigInt(new(big.Int).Lsh(big.NewInt(1), uint(100+t.Intn(150))))
					default:
						lim = math.NewIntFromUint64(1 + t.Uint64()%10_000_000_000_000)
					}
					period := []skywaytypes.LimitPeriod{skywaytypes.LimitPeriod_DAILY, skywaytypes.LimitPeriod_DAILY, skywaytypes.LimitPeriod_WEEKLY, skywaytypes.LimitPeriod_NONE, skywaytypes.LimitPeriod_MONTHLY}[t.Intn(5)]
					title := fmt.Sprintf("limit %s %s %s", d[len(d)-2:], lim, period)
					gov.Propose(title, func(ok bool) {
						if ok {
							m := model[d]
							m.limitSet = true
							m.limit = lim
							m.period = period
							m.limExempt = map[string]bool{}
							for _, e := range ex {
								m.limExempt[e] = true
							}
						}
					}, Legacy(&skywaytypes.SetBridgeTransferLimitProposal{Title: title, Description: "d", Token: d, Limit: lim, LimitPeriod: period, ExemptAddresses: ex}))
				}
			}
		}
		// age an open usage window: the same window, begun earlier (its total unchanged), so that window boundaries of every
		// period are reached without producing 57 600 .. 1 728 000 blocks. The record is written with the keeper's own
		// encoding into the working state; the following block is produced without a crash point so that it is committed.
		savedCrash := b.Sim.Cfg.CrashPerMille
		if !long && t.Chance(1, 12) {
			d := denoms[t.Intn(len(denoms))]
			m := model[d]
			if m.limitSet && m.hasWin && m.period != skywaytypes.LimitPeriod_NONE {
				P := c15Period[m.period]
				offs := []int64{P - 12, P - 2, P + 3, P / 2}
				switch m.period {
				case skywaytypes.LimitPeriod_MONTHLY:
					offs = append(offs, 57_600*7+5, 57_600*7-5, 57_600+5)
				case skywaytypes.LimitPeriod_WEEKLY:
					offs = append(offs, 57_600+5, 57_600*30-7)
				case skywaytypes.LimitPeriod_DAILY:
					offs = append(offs, 57_600*7-9)
				}
				off := offs[t.Intn(len(offs))]
				if start := b.N.Height - off; start > 0 && start < m.start {
					uctx := b.N.App.BaseApp.NewUncachedContext(false, cmtproto.Header{Height: b.N.Height, ChainID: b.N.ChainID})
					st := b.N.App.SkywayKeeper.GetStore(uctx, skywaytypes.BridgeTransferUsagePrefix)
					if err := keeperutil.Save(st, b.N.App.AppCodec(), []byte(d), &skywaytypes.BridgeTransferUsage{Total: m.used, StartBlockHeight: start}); err != nil {
						core.Harnessf("age window: %v", err)
					}
					m.start = start
					b.Sim.Cfg.CrashPerMille = 0
					r.Stats.Fault("usage_window_aged")
					r.Trace.Event("age-window", "%s start=%d (%d blocks ago, period %s)", d[len(d)-2:], start, off, m.period)
				}
			}
		}
		gov.Tick()
		br := b.Block()
		b.Sim.Cfg.CrashPerMille = savedCrash
		if b.Aborted {
			break
		}
		hh := br.Height
		// process results in block order against the model (configuration changes of this block apply afterwards:
		// governance executes in the end-blocker; the callbacks above ran at the *next* Tick, i.e. before the next block)
		order := map[string]int{}
		for k, tx := range br.Txs {
			order[string(tx)] = k
		}
		var rest []*c15Op
		var done []*c15Op
		for _, op := range pending {
			if _, in := order[string(op.tx)]; in {
				done = append(done, op)
			} else {
				rest = append(rest, op)
			}
		}
		pending = rest
		if forget {
			pending = nil // the node lost its mempool after this block
			forget = false
		}
		for x := 1; x < len(done); x++ {
			for y := x; y > 0 && order[string(done[y].tx)] < order[string(done[y-1].tx)]; y-- {
				done[y], done[y-1] = done[y-1], done[y]
			}
		}
		for _, op := range done {
			res := b.Result(op.tx)
			ok := res.Code == 0
			who := op.user.Bech32()
			switch op.kind {
			case "cancel":
				e := pool[op.id]
				r.Trace.Event("cancel", "%s id=%d ok=%v", op.user.Name, op.id, ok)
				if ok && e != nil {
					if e.sender != who {
						viols = append(viols, vio("C15", "cancel-by-other", hh, nil, fmt.Sprintf("transfer %d of %s cancelled by %s", op.id, e.sender, who)))
					}
					bal[e.sender][e.denom] = bal[e.sender][e.denom].Add(e.amount).Add(e.tax)
					delete(pool, op.id)
					r.Stats.Probe("cancel_ok")
				}
			case "send":
				m := model[op.denom]
				// exact tax
				tax := math.ZeroInt()
				if m.rate != nil && m.rate.Sign() > 0 && !m.taxExempt[who] {
					num := new(big.Int).Mul(op.amount.BigInt(), m.rate.Num())
					tax = math.NewIntFromBigInt(num.Quo(num, m.rate.Denom()))
				}
				// window model
				limited := m.limitSet && m.period != skywaytypes.LimitPeriod_NONE && !m.limExempt[who]
				fits := true
				newStart, newUsed := m.start, m.used
				if limited {
					if !m.hasWin || hh-m.start >= c15Period[m.period] {
						newStart, newUsed = hh, op.amount
						if m.hasWin {
							r.Stats.Probe("window_rollover")
						}
					} else {
						newUsed = m.used.Add(op.amount)
					}
					fits = newUsed.LTE(m.limit)
				}
				funds := bal[who][op.denom].GTE(op.amount.Add(tax))
				limitErr := strings.Contains(res.Log, "limit for bridge transfer reached")
				r.Trace.Event("send", "%s %s ok=%v limited=%v fits=%v funds=%v tax=%s", op.user.Name, op.amount, ok, limited, fits, funds, tax)
				if ok {
					r.Stats.Probe("send_ok")
					if limited && !fits {
						viols = append(viols, vio("C15", "limit-exceeded", hh, nil, fmt.Sprintf("send of %s by %s accepted although the window (start %d, used %s) only allows %s", op.amount, op.user.Name, m.start, m.used, m.limit)))
					}
					if limited {
						m.hasWin, m.start, m.used = true, newStart, newUsed
						r.Stats.Probe("limited_send_ok")
					}
					idStr, found := eventAttr(res.Events, "EventOutgoingTxId", "tx_id")
					if !found {
						core.Harnessf("no tx id event")
					}
					id, _ := strconv.ParseUint(idStr, 10, 64)
					pool[id] = &poolEntry{who, op.denom, op.amount, tax}
					bal[who][op.denom] = bal[who][op.denom].Sub(op.amount).Sub(tax)
					if tax.IsPositive() {
						r.Stats.Probe("taxed_send_ok")
					}
				} else {
					r.Stats.Probe("send_failed")
					if limitErr {
						r.Stats.Probe("send_rejected_for_limit")
						if !limited {
							viols = append(viols, vio("C15", "unrestricted-sender-limited", hh, nil, fmt.Sprintf("send of %s by %s rejected for the transfer limit although sender is exempt / token has no limit", op.amount, op.user.Name)))
						} else if fits {
							viols = append(viols, vio("C15", "allowance-leaked", hh, nil, fmt.Sprintf("send of %s by %s rejected for the limit although window (start %d, used %s of %s) has room: earlier rejected transfers must not consume allowance", op.amount, op.user.Name, m.start, m.used, m.limit)))
						}
					}
				}
			}
		}
		// state oracle: balances and stored taxes
		if active || i%500 == 0 {
			ctx := b.Ctx()
			for _, u := range b.Users {
				for _, d := range denoms {
					got := b.N.App.BankKeeper.GetBalance(ctx, u.Addr, d).Amount
					if !got.Equal(bal[u.Bech32()][d]) {
						viols = append(viols, vio("C15", "cost-mismatch", hh, nil, fmt.Sprintf("%s holds %s of %s; exact model (a + floor(a*r) per non-exempt send, a per exempt send, full refund on cancel) gives %s (difference %s)", u.Name, got, d, bal[u.Bech32()][d], got.Sub(bal[u.Bech32()][d]))))
						bal[u.Bech32()][d] = got
					}
				}
			}
			txs, err := b.N.App.SkywayKeeper.GetUnbatchedTransactions(ctx)
			if err == nil {
				seen := 0
				for _, tx := range txs {
					if e, ok := pool[tx.Id]; ok {
						seen++
						if !tx.BridgeTaxAmount.Equal(e.tax) {
							viols = append(viols, vio("C15", "recorded-tax-mismatch", hh, nil, fmt.Sprintf("transfer %d records tax %s, exact floor(a*r) is %s", tx.Id, tx.BridgeTaxAmount, e.tax)))
						}
					}
				}
				if seen != len(pool) {
					r.Note("C01", "pool-entry-missing", "model has %d pending transfers, pool shows %d of them", len(pool), seen)
					// keep the model in step with reality
					present := map[uint64]bool{}
					for _, tx := range txs {
						present[tx.Id] = true
					}
					for id := range pool {
						if !present[id] {
							delete(pool, id)
						}
					}
				}
			}
		}
	}
	b.abortNote("C15")
	if r.Stats.Probes["taxed_send_ok"] > 0 || r.Stats.Probes["limited_send_ok"] > 0 {
		r.Stats.Probe("target")
	}
	r.Sample = []string{fmt.Sprintf("start height %d, %d blocks (long=%v): sends ok=%d (taxed %d, limited %d) failed=%d (for limit %d), cancels ok=%d, window rollovers %d, gov passed %d",
		cfg.InitialHeight, r.Blocks, long, r.Stats.Probes["send_ok"], r.Stats.Probes["taxed_send_ok"], r.Stats.Probes["limited_send_ok"], r.Stats.Probes["send_failed"],
		r.Stats.Probes["send_rejected_for_limit"], r.Stats.Probes["cancel_ok"], r.Stats.Probes["window_rollover"], r.Stats.Probes["gov_passed"])}
	return viols
}

func sortU64(a []uint64) {
	for i := 1; i < len(a); i++ {
		for j := i; j > 0 && a[j] < a[j-1]; j-- {
			a[j], a[j-1] = a[j-1], a[j]
		}
	}
}
