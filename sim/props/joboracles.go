package props

import (
	"bytes"
	"fmt"
	"math/big"
	"sort"

	"cosmossdk.io/math"
	sdk "github.com/cosmos/cosmos-sdk/types"
	"github.com/ethereum/go-ethereum/common"
	ethcrypto "github.com/ethereum/go-ethereum/crypto"
	consensustypes "github.com/palomachain/paloma/v2/x/consensus/types"
	evmtypes "github.com/palomachain/paloma/v2/x/evm/types"
	valsettypes "github.com/palomachain/paloma/v2/x/valset/types"
	"verifsim/core"
	"verifsim/world"
)

// elig is the eligibility table at one block boundary.
type elig struct {
	snapID  uint64
	inSnap  map[string]bool              // val bech32
	addr    map[string]map[string]string // val -> chain -> address in the snapshot entry
	mev     map[string]map[string]bool
	fee     map[string]map[string]math.LegacyDec
	metrics map[string]bool
	shares  map[string]math.Int
	total   math.Int
	comm    string
	sec     string
}

func (w *JobWorld) eligibility() *elig {
	ctx := w.Ctx()
	e := &elig{inSnap: map[string]bool{}, addr: map[string]map[string]string{}, mev: map[string]map[string]bool{}, fee: map[string]map[string]math.LegacyDec{}, metrics: map[string]bool{}, shares: map[string]math.Int{}, total: math.ZeroInt()}
	snap, err := w.N.App.ValsetKeeper.GetCurrentSnapshot(ctx)
	if err == nil && snap != nil {
		e.snapID = snap.Id
		e.total = snap.TotalShares
		for _, v := range snap.Validators {
			a := v.Address.String()
			e.inSnap[a] = true
			e.shares[a] = v.ShareCount
			e.addr[a] = map[string]string{}
			e.mev[a] = map[string]bool{}
			for _, ci := range v.ExternalChainInfos {
				e.addr[a][ci.ChainReferenceID] = ci.Address
				for _, tr := range ci.Traits {
					if tr == valsettypes.PIGEON_TRAIT_MEV {
						e.mev[a][ci.ChainReferenceID] = true
					}
				}
			}
		}
	}
	fees, _ := w.N.App.TreasuryKeeper.GetRelayerFees(ctx)
	for _, f := range fees {
		e.fee[f.ValAddress] = map[string]math.LegacyDec{}
		for _, x := range f.Fees {
			e.fee[f.ValAddress][x.ChainReferenceId] = x.Multiplicator
		}
	}
	for _, v := range w.Vals {
		m, err := w.N.App.MetrixKeeper.GetValidatorMetrics(ctx, v.Acct.ValAddr())
		if err == nil && m != nil {
			e.metrics[v.Acct.ValBech32()] = true
		}
	}
	tf, err := w.N.App.TreasuryKeeper.GetFees(ctx)
	if err == nil {
		e.comm, e.sec = tf.CommunityFundFee, tf.SecurityFee
	}
	return e
}

func (e *elig) eligible(val, chain, remote string, needMEV bool) bool {
	if e == nil || !e.inSnap[val] {
		return false
	}
	a, ok := e.addr[val][chain]
	if !ok || !bytes.Equal(common.HexToAddress(a).Bytes(), common.HexToAddress(remote).Bytes()) {
		return false
	}
	if _, ok := e.fee[val][chain]; !ok {
		return false
	}
	if !e.metrics[val] {
		return false
	}
	if needMEV && !e.mev[val][chain] {
		return false
	}
	return true
}

func slcOf(q *QMsg) *evmtypes.SubmitLogicCall {
	if q.Msg == nil {
		return nil
	}
	if a, ok := q.Msg.Action.(*evmtypes.Message_SubmitLogicCall); ok {
		return a.SubmitLogicCall
	}
	return nil
}

func isValsetUpdate(q *QMsg) bool {
	if q.Msg == nil {
		return false
	}
	_, ok := q.Msg.Action.(*evmtypes.Message_UpdateValset)
	return ok
}

// ---------------- C17 ----------------

func (w *JobWorld) oracleC17(br *world.BlockResult) []*core.Violation {
	var out []*core.Violation
	ctx := w.Ctx()
	h := br.Height
	// jobs are frozen
	for _, id := range core.SortedKeys(w.Jobs) {
		j := w.Jobs[id]
		stored, err := w.N.App.SchedulerKeeper.GetJob(ctx, id)
		if err != nil {
			out = append(out, vio("C17", "job-disappeared", h, nil, fmt.Sprintf("job %s can no longer be loaded: %v", id, err)))
			continue
		}
		raw, _ := stored.Marshal()
		if !bytes.Equal(raw, j.Raw) {
			out = append(out, vio("C17", "job-mutated", h, nil, fmt.Sprintf("stored job %s changed after creation", id)))
			j.Raw = raw
		}
		if stored.Owner.String() != j.Owner {
			out = append(out, vio("C17", "job-owner", h, nil, fmt.Sprintf("job %s is owned by %s but was created by %s", id, stored.Owner, j.Owner)))
		}
	}
	// new contract calls of this block (system retries carry Retries > 0)
	newCalls := map[uint64]*QMsg{}
	for _, id := range SortedIDs(w.Cur) {
		q := w.Cur[id]
		if _, old := w.Prev[id]; old {
			continue
		}
		if s := slcOf(q); s != nil && s.Retries == 0 {
			newCalls[id] = q
		}
	}
	okExec := 0
	seenCreate := map[string]bool{}
	for _, ex := range w.LastExec {
		op := ex.op
		if op.kind == "create" {
			if ex.ok {
				if j, known := w.Jobs[op.job.ID]; known && (j != op.job || seenCreate[op.job.ID]) {
					out = append(out, vio("C17", "duplicate-job-id", h, nil, fmt.Sprintf("job id %s was created a second time (by %s)", op.job.ID, op.who())))
				}
				seenCreate[op.job.ID] = true
			}
			continue
		}
		if !ex.ok {
			continue
		}
		okExec++
		j := w.Jobs[op.jobID]
		if j == nil {
			out = append(out, vio("C17", "executed-unknown-job", h, nil, fmt.Sprintf("execution of unknown job %q succeeded", op.jobID)))
			continue
		}
		q := newCalls[ex.msgID]
		if q == nil {
			out = append(out, vio("C17", "no-call-enqueued", h, nil, fmt.Sprintf("successful execution of job %s by %s returned message id %d but no new contract call with that id is queued", j.ID, op.who(), ex.msgID)))
			continue
		}
		delete(newCalls, ex.msgID)
		s := slcOf(q)
		want := j.Payload
		if op.payload != nil {
			if !j.Modifiable {
				out = append(out, vio("C17", "payload-override-on-fixed-job", h, nil, fmt.Sprintf("job %s is not payload-modifiable but an execution with a caller payload succeeded", j.ID)))
			}
			want = op.payload
		}
		want = append(append([]byte(nil), want...), common.LeftPadBytes(op.requester().Bytes(), 32)...)
		if q.Chain != j.Chain {
			out = append(out, vio("C17", "wrong-chain", h, nil, fmt.Sprintf("job %s targets %s but the call was queued for %s", j.ID, j.Chain, q.Chain)))
		}
		if common.HexToAddress(s.HexContractAddress) != j.Contract {
			out = append(out, vio("C17", "wrong-contract", h, nil, fmt.Sprintf("job %s calls %s but the queued call targets %s", j.ID, j.Contract.Hex(), s.HexContractAddress)))
		}
		if !bytes.Equal(s.Payload, want) {
			out = append(out, vio("C17", "wrong-payload", h, map[string]string{"modifiable": fmt.Sprint(j.Modifiable), "caller_payload": fmt.Sprint(op.payload != nil)},
				fmt.Sprintf("job %s (modifiable=%v, caller payload given=%v) executed by %s: queued payload %x, expected stored/caller payload followed by the 32-byte padded requester %x", j.ID, j.Modifiable, op.payload != nil, op.who(), s.Payload, want)))
		}
		w.R.Stats.Probe("c17_execution_checked")
	}
	if len(newCalls) > 0 {
		ids := make([]uint64, 0)
		for id := range newCalls {
			ids = append(ids, id)
		}
		sort.Slice(ids, func(i, j int) bool { return ids[i] < ids[j] })
		out = append(out, vio("C17", "unrequested-call", h, nil, fmt.Sprintf("%d new contract call(s) %v are queued although only %d execution requests succeeded in this block", len(newCalls), ids, okExec)))
	}
	return out
}

// ---------------- C14 ----------------

func (w *JobWorld) oracleC14(br *world.BlockResult, prevE, curE *elig) []*core.Violation {
	var out []*core.Violation
	h := br.Height
	ctx := w.Ctx()
	// (1) assignment of new messages
	for _, id := range SortedIDs(w.Cur) {
		q := w.Cur[id]
		if _, old := w.Prev[id]; old || q.Msg == nil || q.Msg.Assignee == "" {
			continue
		}
		needMEV := false
		if s := slcOf(q); s != nil {
			needMEV = s.ExecutionRequirements.EnforceMEVRelay
		}
		if !(prevE.eligible(q.Msg.Assignee, q.Chain, q.Msg.AssigneeRemoteAddress, needMEV) || curE.eligible(q.Msg.Assignee, q.Chain, q.Msg.AssigneeRemoteAddress, needMEV)) {
			out = append(out, vio("C14", "ineligible-assignee", h, map[string]string{"mev": fmt.Sprint(needMEV)},
				fmt.Sprintf("message %d on %s was assigned to %s / %s (MEV required: %v) which is not (in the current snapshot ∧ has that account on the chain ∧ has a relayer fee ∧ has metrics ∧ has the trait); in snapshot=%v account=%q fee=%v metrics=%v",
					id, q.Chain, q.Msg.Assignee, q.Msg.AssigneeRemoteAddress, needMEV, curE.inSnap[q.Msg.Assignee], curE.addr[q.Msg.Assignee][q.Chain], curE.fee[q.Msg.Assignee] != nil, curE.metrics[q.Msg.Assignee])))
		}
		w.R.Stats.Probe("c14_assignment_checked")
	}
	// (2) relay query for every validator
	for _, v := range w.Vals {
		for _, chain := range w.Order {
			qn := queueName(chain)
			msgs, err := w.N.App.ConsensusKeeper.GetMessagesForRelaying(ctx, qn, v.Acct.ValAddr())
			if err != nil {
				continue
			}
			for _, m := range msgs {
				q := w.Cur[m.GetId()]
				if q == nil || q.Msg == nil {
					continue
				}
				bad := func(class, why string) {
					out = append(out, vio("C14", class, h, nil, fmt.Sprintf("message %d on %s is offered for relay to %s although %s", q.ID, chain, v.Acct.Name, why)))
				}
				if q.Msg.Assignee != v.Acct.ValBech32() {
					bad("relay-offered-to-non-assignee", "it is assigned to "+q.Msg.Assignee)
				}
				if q.Raw.GetRequireGasEstimation() && q.Raw.GasEstimate == 0 {
					bad("relay-before-estimate", "its gas estimate is not elected yet")
				}
				if q.Raw.PublicAccessData != nil || q.Raw.ErrorData != nil {
					bad("relay-after-report", "it already has a delivery or error report")
				}
				for _, oid := range SortedIDs(w.Cur) {
					o := w.Cur[oid]
					if o.Queue != q.Queue || oid >= q.ID {
						continue
					}
					if isValsetUpdate(o) {
						bad("relay-ahead-of-valset-update", fmt.Sprintf("older validator-set update %d is still pending", oid))
					}
					if s, os := slcOf(q), slcOf(o); s != nil && os != nil && len(s.SenderAddress) > 0 && bytes.Equal(s.SenderAddress, os.SenderAddress) &&
						o.Raw.PublicAccessData == nil && o.Raw.ErrorData == nil {
						bad("relay-ahead-of-same-sender", fmt.Sprintf("older message %d of the same sender has no delivery or error report yet", oid))
					}
				}
				w.R.Stats.Probe("c14_relay_offer_checked")
			}
		}
	}
	// (3) fees at election
	for _, id := range SortedIDs(w.Cur) {
		q := w.Cur[id]
		p := w.Prev[id]
		if p == nil || q.Msg == nil || !(p.Raw.GasEstimate == 0 && q.Raw.GasEstimate > 0) {
			continue
		}
		var fees *evmtypes.Fees
		switch a := q.Msg.Action.(type) {
		case *evmtypes.Message_SubmitLogicCall:
			fees = a.SubmitLogicCall.Fees
		case *evmtypes.Message_UploadUserSmartContract:
			fees = a.UploadUserSmartContract.Fees
		default:
			continue
		}
		if fees == nil {
			// an elected estimate makes the message relayable; it must carry its fees from that moment on
			out = append(out, vio("C14", "fees-missing", h, nil, fmt.Sprintf("message %d: gas estimate %d was elected but no fees were attached (the message is offered for relay without fees)", id, q.Raw.GasEstimate)))
			continue
		}
		okAny := false
		var wantR, wantC, wantS *big.Int
		for _, e := range []*elig{curE, prevE} {
			if e == nil {
				continue
			}
			m, ok := e.fee[q.Msg.Assignee][q.Chain]
			if !ok {
				continue
			}
			g := new(big.Rat).SetUint64(q.Raw.GasEstimate)
			mr, _ := new(big.Rat).SetString(m.String())
			cr, ok1 := new(big.Rat).SetString(e.comm)
			sr, ok2 := new(big.Rat).SetString(e.sec)
			if !ok1 || !ok2 {
				continue
			}
			wantR = ceilRat(new(big.Rat).Mul(mr, g))
			wantC = ceilRat(new(big.Rat).Mul(cr, new(big.Rat).SetInt(wantR)))
			wantS = ceilRat(new(big.Rat).Mul(sr, new(big.Rat).SetInt(wantR)))
			if fees != nil && wantR.IsUint64() && wantC.IsUint64() && wantS.IsUint64() &&
				fees.RelayerFee == wantR.Uint64() && fees.CommunityFee == wantC.Uint64() && fees.SecurityFee == wantS.Uint64() {
				okAny = true
			}
		}
		if !okAny && wantR != nil {
			out = append(out, vio("C14", "fees-wrong", h, nil, fmt.Sprintf("message %d: elected gas %d, attached fees %v, exact ceil(m*g)=%s ceil(c*rf)=%s ceil(s*rf)=%s", id, q.Raw.GasEstimate, fees, wantR, wantC, wantS)))
		}
		w.R.Stats.Probe("c14_fee_checked")
	}
	return out
}

func ceilRat(r *big.Rat) *big.Int {
	q, m := new(big.Int).QuoRem(r.Num(), r.Denom(), new(big.Int))
	if m.Sign() > 0 {
		q.Add(q, big.NewInt(1))
	}
	return q
}

// ---------------- C06 (queued messages) ----------------

func recoverEth(hash32, sig []byte) (common.Address, bool) {
	if len(sig) != 65 {
		return common.Address{}, false
	}
	digest := ethcrypto.Keccak256(append([]byte("\x19Ethereum Signed Message:\n32"), hash32...))
	s := append([]byte(nil), sig...)
	if s[64] >= 27 {
		s[64] -= 27
	}
	pk, err := ethcrypto.SigToPub(digest, s)
	if err != nil {
		return common.Address{}, false
	}
	return ethcrypto.PubkeyToAddress(*pk), true
}

func (w *JobWorld) valIndex(valAddr sdk.ValAddress) int {
	for i, v := range w.Vals {
		if v.Acct.ValAddr().Equals(valAddr) {
			return i
		}
	}
	return -1
}

func (w *JobWorld) oracleC06(br *world.BlockResult) []*core.Violation {
	var out []*core.Violation
	h := br.Height
	for _, id := range SortedIDs(w.Cur) {
		q := w.Cur[id]
		if !q.Raw.RequireSignatures || q.Bytes == nil {
			continue
		}
		seenVal := map[string]bool{}
		seenKey := map[string]bool{}
		for _, sd := range q.Raw.SignData {
			w.R.Stats.Probe("c06_signature_checked")
			vk := sd.ValAddress.String()
			if seenVal[vk] {
				out = append(out, vio("C06", "validator-signed-twice", h, nil, fmt.Sprintf("message %d holds two signatures of validator %s", id, vk)))
			}
			seenVal[vk] = true
			kk := string(sd.PublicKey)
			if seenKey[kk] {
				out = append(out, vio("C06", "key-signed-twice", h, nil, fmt.Sprintf("message %d holds two signatures by key %x", id, sd.PublicKey)))
			}
			seenKey[kk] = true
			ck := string(q.Bytes) + "|" + string(sd.Signature) + "|" + sd.ExternalAccountAddress + "|" + vk
			if w.sigOK[ck] {
				continue // this exact (bytes, signature, key, validator) was verified at an earlier boundary
			}
			who, ok := recoverEth(q.Bytes, sd.Signature)
			vi := w.valIndex(sd.ValAddress)
			registered := false
			if ok && vi >= 0 {
				for _, a := range w.Registered[vi][q.Chain] {
					if a == who {
						registered = true
					}
				}
			}
			if !ok || !registered || common.HexToAddress(sd.ExternalAccountAddress) != who {
				out = append(out, vio("C06", "stored-signature-invalid", h, map[string]string{"bytes_changed": fmt.Sprint(w.Prev[id] != nil && !bytes.Equal(w.Prev[id].Bytes, q.Bytes))},
					fmt.Sprintf("message %d on %s: stored signature of %s (claims key %s) does not verify against the currently published signing bytes %x under a key that validator registered (recovered %s, ok=%v)",
						id, q.Chain, vk, sd.ExternalAccountAddress, q.Bytes, who.Hex(), ok)))
			} else {
				w.sigOK[ck] = true
			}
		}
		if p := w.Prev[id]; p != nil && p.Bytes != nil && !bytes.Equal(p.Bytes, q.Bytes) {
			w.R.Stats.Probe("c06_signing_bytes_changed")
			old := map[string]bool{}
			for _, sd := range p.Raw.SignData {
				old[string(sd.Signature)] = true
			}
			for _, sd := range q.Raw.SignData {
				if old[string(sd.Signature)] {
					out = append(out, vio("C06", "signature-carried-over", h, nil, fmt.Sprintf("message %d: signing bytes changed from %x to %x but a signature collected before the change is still stored", id, p.Bytes, q.Bytes)))
					break
				}
			}
		}
	}
	return out
}

// ---------------- C05 (a): ids ----------------

func (w *JobWorld) oracleC05ids(br *world.BlockResult) []*core.Violation {
	var out []*core.Violation
	var fresh []uint64
	for _, id := range SortedIDs(w.Cur) {
		if _, old := w.Prev[id]; !old {
			fresh = append(fresh, id)
		}
	}
	for _, id := range fresh {
		if w.seenIDs == nil {
			w.seenIDs = map[uint64]bool{}
		}
		if w.seenIDs[id] {
			continue // seen at an earlier boundary, left and ... would be reuse: handled below
		}
		if id <= w.MaxID {
			out = append(out, vio("C05", "message-id-not-increasing", br.Height, nil, fmt.Sprintf("new message id %d on %s is not greater than the largest id %d issued before", id, w.Cur[id].Queue, w.MaxID)))
		}
	}
	for _, id := range fresh {
		if w.seenIDs[id] {
			out = append(out, vio("C05", "message-id-reused", br.Height, nil, fmt.Sprintf("message id %d re-appeared on %s after it had left the queues", id, w.Cur[id].Queue)))
		}
		w.seenIDs[id] = true
		if id > w.MaxID {
			w.MaxID = id
		}
		w.R.Stats.Probe("c05_ids_checked")
	}
	return out
}

var _ = consensustypes.ModuleName

// ---------------- C04 ----------------

type evRec struct {
	val   string
	proof string // type url + raw bytes
}

// blockSubmissions collects evidence and estimates that were accepted (code 0) in this block, in block order.
func (w *JobWorld) blockSubmissions(br *world.BlockResult) (ev map[uint64][]evRec, est map[uint64]map[string]uint64) {
	ev = map[uint64][]evRec{}
	est = map[uint64]map[string]uint64{}
	type item struct {
		idx int
		p   *Pigeon
		s   SentTx
	}
	order := map[string]int{}
	for i, tx := range br.Txs {
		order[string(tx)] = i
	}
	var items []item
	for _, p := range w.Pigeons {
		for _, s := range p.Log {
			if i, ok := order[string(s.Tx)]; ok {
				items = append(items, item{i, p, s})
			}
		}
	}
	sort.SliceStable(items, func(i, j int) bool { return items[i].idx < items[j].idx })
	for _, it := range items {
		res := br.Results[it.idx]
		if res.Code != 0 {
			continue
		}
		switch m := it.s.Msg.(type) {
		case *consensustypes.MsgAddEvidence:
			ev[m.MessageID] = append(ev[m.MessageID], evRec{it.p.V.Acct.ValBech32(), m.Proof.TypeUrl + "|" + string(m.Proof.Value)})
		case *consensustypes.MsgAddMessageGasEstimates:
			for _, e := range m.Estimates {
				if est[e.MsgId] == nil {
					est[e.MsgId] = map[string]uint64{}
				}
				if _, dup := est[e.MsgId][it.p.V.Acct.ValBech32()]; !dup {
					est[e.MsgId][it.p.V.Acct.ValBech32()] = e.Value
				}
			}
		}
	}
	return ev, est
}

// quorumGroup reports whether some byte-identical evidence is backed by >= 2/3 of snapshot shares (latest per validator, snapshot members only).
func quorumGroup(latest map[string]string, e *elig) (bool, string) {
	groups := map[string]math.Int{}
	for val, proof := range latest {
		sh, ok := e.shares[val]
		if !ok {
			continue // not in the snapshot
		}
		cur, ok := groups[proof]
		if !ok {
			cur = math.ZeroInt()
		}
		groups[proof] = cur.Add(sh)
	}
	for proof, sum := range groups {
		if sum.MulRaw(3).GTE(e.total.MulRaw(2)) && e.total.IsPositive() {
			return true, proof
		}
	}
	return false, ""
}

func (w *JobWorld) oracleC04(br *world.BlockResult, prevE, curE *elig) []*core.Violation {
	var out []*core.Violation
	h := br.Height
	evNew, estNew := w.blockSubmissions(br)
	latestOf := func(q *QMsg, extra []evRec) map[string]string {
		latest := map[string]string{}
		for _, e := range q.Raw.Evidence {
			latest[e.ValAddress.String()] = e.Proof.TypeUrl + "|" + string(e.Proof.Value)
		}
		for _, e := range extra {
			latest[e.val] = e.proof
		}
		return latest
	}
	// removals
	newValsetUpdate := map[string]bool{}
	for _, id := range SortedIDs(w.Cur) {
		if _, old := w.Prev[id]; !old && isValsetUpdate(w.Cur[id]) {
			newValsetUpdate[w.Cur[id].Chain] = true
		}
	}
	removedValsetWithQuorum := map[string]uint64{}
	type removal struct {
		q      *QMsg
		quorum bool
	}
	var removals []removal
	for _, id := range SortedIDs(w.Prev) {
		q := w.Prev[id]
		if _, still := w.Cur[id]; still {
			continue
		}
		ok, _ := quorumGroup(latestOf(q, evNew[id]), prevE)
		removals = append(removals, removal{q, ok})
		if ok && isValsetUpdate(q) && id > removedValsetWithQuorum[q.Chain] {
			removedValsetWithQuorum[q.Chain] = id
		}
	}
	for _, rm := range removals {
		q := rm.q
		w.R.Stats.Probe("c04_removal_checked")
		if rm.quorum {
			w.R.Stats.Probe("c04_removed_with_quorum")
			continue
		}
		if h%50 == 0 && h-q.Raw.AddedAtBlockHeight > 300 {
			w.R.Stats.Probe("c04_pruned")
			continue
		}
		if isValsetUpdate(q) && (newValsetUpdate[q.Chain] || removedValsetWithQuorum[q.Chain] > q.ID) {
			w.R.Stats.Probe("c04_valset_superseded")
			continue
		}
		latest := latestOf(q, evNew[q.ID])
		out = append(out, vio("C04", "removed-without-quorum", h, map[string]string{"queue": q.Queue[len(q.Queue)-12:]},
			fmt.Sprintf("message %d left %s although no byte-identical evidence is backed by 2/3 of snapshot shares (latest evidence of %d validators, %d in the snapshot of %d shares total)",
				q.ID, q.Queue, len(latest), countIn(latest, prevE), prevE.total)))
	}
	// liveness in fault-free runs: quorum at this boundary => gone two boundaries later
	if w.quorumSince == nil {
		w.quorumSince = map[uint64]int64{}
	}
	for _, id := range SortedIDs(w.Cur) {
		q := w.Cur[id]
		ok, _ := quorumGroup(latestOf(q, nil), curE)
		if !ok {
			delete(w.quorumSince, id)
			continue
		}
		if since, seen := w.quorumSince[id]; !seen {
			w.quorumSince[id] = h
		} else if h-since >= 3 && w.R.Profile == "fault-free" && w.R.Stats.Probes["byzantine_validators"] == 0 {
			out = append(out, vio("C04", "quorum-not-processed", h, nil, fmt.Sprintf("message %d on %s has had byte-identical evidence from >= 2/3 of snapshot shares since height %d and is still queued", id, q.Queue, since)))
			delete(w.quorumSince, id)
		}
	}
	// gas estimate election
	for _, id := range SortedIDs(w.Cur) {
		q := w.Cur[id]
		p := w.Prev[id]
		if p == nil {
			continue
		}
		if p.Raw.GasEstimate > 0 && q.Raw.GasEstimate != p.Raw.GasEstimate {
			out = append(out, vio("C04", "elected-estimate-changed", h, nil, fmt.Sprintf("message %d: elected gas estimate changed from %d to %d", id, p.Raw.GasEstimate, q.Raw.GasEstimate)))
		}
		if p.Raw.GasEstimate == 0 && q.Raw.GasEstimate > 0 {
			vals := map[string]uint64{}
			for _, e := range p.Raw.GasEstimates {
				vals[e.ValAddress.String()] = e.Value
			}
			for v, x := range estNew[id] {
				if _, dup := vals[v]; !dup {
					vals[v] = x
				}
			}
			sum := math.ZeroInt()
			var lo, hi uint64
			first := true
			for v, x := range vals {
				if sh, ok := prevE.shares[v]; ok {
					sum = sum.Add(sh)
				}
				if first || x < lo {
					lo = x
				}
				if first || x > hi {
					hi = x
				}
				first = false
			}
			w.R.Stats.Probe("c04_election_checked")
			if !sum.MulRaw(3).GTE(prevE.total.MulRaw(2)) {
				out = append(out, vio("C04", "estimate-elected-without-quorum", h, nil, fmt.Sprintf("message %d: estimate %d elected with submissions from %s of %s snapshot shares", id, q.Raw.GasEstimate, sum, prevE.total)))
			}
			if q.Raw.GasEstimate < lo || q.Raw.GasEstimate > hi {
				out = append(out, vio("C04", "elected-estimate-out-of-range", h, nil, fmt.Sprintf("message %d: elected gas estimate %d is outside the submitted values [%d, %d] (%d submissions)", id, q.Raw.GasEstimate, lo, hi, len(vals))))
			}
		}
	}
	return out
}

func countIn(latest map[string]string, e *elig) int {
	n := 0
	for v := range latest {
		if _, ok := e.shares[v]; ok {
			n++
		}
	}
	return n
}

// ---------------- C05 (b): every delivered value changes the signing bytes ----------------

func (w *JobWorld) mutatedBytes(raw *consensustypes.QueuedSignedMessage, mutate func(q *consensustypes.QueuedSignedMessage, m *evmtypes.Message)) ([]byte, bool) {
	cdc := w.N.App.AppCodec()
	bz, err := raw.Marshal()
	if err != nil {
		return nil, false
	}
	var c consensustypes.QueuedSignedMessage
	if err := c.Unmarshal(bz); err != nil {
		return nil, false
	}
	cm, err := c.ConsensusMsg(cdc)
	if err != nil {
		return nil, false
	}
	m, ok := cm.(*evmtypes.Message)
	if !ok {
		return nil, false
	}
	mutate(&c, m)
	c.Msg = mustAny(m)
	out, err := c.GetBytesToSign(cdc)
	if err != nil {
		return nil, false
	}
	return out, true
}

type fieldMut struct {
	name string
	f    func(q *consensustypes.QueuedSignedMessage, m *evmtypes.Message)
}

// flipFirst changes one byte inside the (at most 32-byte) deployment id.
func flipFirst(id string) string {
	b := []byte(id)
	if len(b) == 0 {
		return "1"
	}
	b[0] ^= 0x01
	return string(b)
}

func flipAddr(a string) string {
	b := common.HexToAddress(a)
	b[19] ^= 0x01
	return b.Hex()
}

func bumpFees(m *evmtypes.Fees, which int) *evmtypes.Fees {
	f := evmtypes.Fees{RelayerFee: 100_000, CommunityFee: 100_000, SecurityFee: 100_000}
	if m != nil {
		f = *m
	}
	switch which {
	case 0:
		f.RelayerFee++
	case 1:
		f.CommunityFee++
	default:
		f.SecurityFee++
	}
	return &f
}

// deliveredFieldMutations lists, per action type, one mutation per value the bridge contract is handed on delivery.
func deliveredFieldMutations(q *QMsg) []fieldMut {
	var ms []fieldMut
	common := []fieldMut{
		{"relayer address", func(_ *consensustypes.QueuedSignedMessage, m *evmtypes.Message) {
			m.AssigneeRemoteAddress = flipAddr(m.AssigneeRemoteAddress)
		}},
	}
	switch a := q.Msg.Action.(type) {
	case *evmtypes.Message_SubmitLogicCall:
		_ = a
		ms = append(ms, common...)
		ms = append(ms,
			fieldMut{"target contract", func(_ *consensustypes.QueuedSignedMessage, m *evmtypes.Message) {
				s := m.Action.(*evmtypes.Message_SubmitLogicCall).SubmitLogicCall
				s.HexContractAddress = flipAddr(s.HexContractAddress)
			}},
			fieldMut{"payload (byte flipped)", func(_ *consensustypes.QueuedSignedMessage, m *evmtypes.Message) {
				s := m.Action.(*evmtypes.Message_SubmitLogicCall).SubmitLogicCall
				s.Payload = append([]byte(nil), s.Payload...)
				s.Payload[len(s.Payload)/2] ^= 0x80
			}},
			fieldMut{"payload (byte appended)", func(_ *consensustypes.QueuedSignedMessage, m *evmtypes.Message) {
				s := m.Action.(*evmtypes.Message_SubmitLogicCall).SubmitLogicCall
				s.Payload = append(append([]byte(nil), s.Payload...), 0)
			}},
			fieldMut{"relayer fee", func(_ *consensustypes.QueuedSignedMessage, m *evmtypes.Message) {
				s := m.Action.(*evmtypes.Message_SubmitLogicCall).SubmitLogicCall
				s.Fees = bumpFees(s.Fees, 0)
			}},
			fieldMut{"community fee", func(_ *consensustypes.QueuedSignedMessage, m *evmtypes.Message) {
				s := m.Action.(*evmtypes.Message_SubmitLogicCall).SubmitLogicCall
				s.Fees = bumpFees(s.Fees, 1)
			}},
			fieldMut{"security fee", func(_ *consensustypes.QueuedSignedMessage, m *evmtypes.Message) {
				s := m.Action.(*evmtypes.Message_SubmitLogicCall).SubmitLogicCall
				s.Fees = bumpFees(s.Fees, 2)
			}},
			fieldMut{"fee payer", func(_ *consensustypes.QueuedSignedMessage, m *evmtypes.Message) {
				s := m.Action.(*evmtypes.Message_SubmitLogicCall).SubmitLogicCall
				s.SenderAddress = append([]byte(nil), s.SenderAddress...)
				if len(s.SenderAddress) == 0 {
					s.SenderAddress = []byte{1}
				} else {
					s.SenderAddress[0] ^= 0x01
				}
			}},
			fieldMut{"message id", func(q *consensustypes.QueuedSignedMessage, _ *evmtypes.Message) { q.Id++ }},
			fieldMut{"deadline", func(_ *consensustypes.QueuedSignedMessage, m *evmtypes.Message) {
				m.Action.(*evmtypes.Message_SubmitLogicCall).SubmitLogicCall.Deadline++
			}},
			fieldMut{"bridge deployment id", func(_ *consensustypes.QueuedSignedMessage, m *evmtypes.Message) {
				m.TurnstoneID = flipFirst(m.TurnstoneID)
			}},
		)
	case *evmtypes.Message_UpdateValset:
		ms = append(ms, common...)
		ms = append(ms,
			fieldMut{"gas estimate (elected values)", func(q *consensustypes.QueuedSignedMessage, _ *evmtypes.Message) {
				if q.GasEstimate > 0 {
					q.GasEstimate++
				} else {
					q.GasEstimate = 300_001 // "none" is encoded as 300 000: compare against another elected value
				}
			}},
			fieldMut{"valset id", func(_ *consensustypes.QueuedSignedMessage, m *evmtypes.Message) {
				m.Action.(*evmtypes.Message_UpdateValset).UpdateValset.Valset.ValsetID++
			}},
			fieldMut{"bridge deployment id", func(_ *consensustypes.QueuedSignedMessage, m *evmtypes.Message) {
				m.TurnstoneID = flipFirst(m.TurnstoneID)
			}},
		)
		vs := a.UpdateValset.Valset
		for i := range vs.Validators {
			i := i
			ms = append(ms,
				fieldMut{fmt.Sprintf("validator %d address", i), func(_ *consensustypes.QueuedSignedMessage, m *evmtypes.Message) {
					v := m.Action.(*evmtypes.Message_UpdateValset).UpdateValset.Valset
					v.Validators[i] = flipAddr(v.Validators[i])
				}},
				fieldMut{fmt.Sprintf("validator %d power", i), func(_ *consensustypes.QueuedSignedMessage, m *evmtypes.Message) {
					v := m.Action.(*evmtypes.Message_UpdateValset).UpdateValset.Valset
					v.Powers[i]++
				}},
			)
		}
		if len(vs.Validators) >= 2 {
			ms = append(ms, fieldMut{"two validators swapped", func(_ *consensustypes.QueuedSignedMessage, m *evmtypes.Message) {
				v := m.Action.(*evmtypes.Message_UpdateValset).UpdateValset.Valset
				if v.Validators[0] != v.Validators[1] || v.Powers[0] != v.Powers[1] {
					v.Validators[0], v.Validators[1] = v.Validators[1], v.Validators[0]
					v.Powers[0], v.Powers[1] = v.Powers[1], v.Powers[0]
				} else {
					v.Powers[0]++
				}
			}})
		}
	case *evmtypes.Message_CompassHandover:
		ms = append(ms, common...)
		ms = append(ms,
			fieldMut{"deadline", func(_ *consensustypes.QueuedSignedMessage, m *evmtypes.Message) {
				m.Action.(*evmtypes.Message_CompassHandover).CompassHandover.Deadline++
			}},
			fieldMut{"gas estimate (elected values)", func(q *consensustypes.QueuedSignedMessage, _ *evmtypes.Message) {
				if q.GasEstimate > 0 {
					q.GasEstimate++
				} else {
					q.GasEstimate = 300_001
				}
			}},
		)
		for i := range a.CompassHandover.ForwardCallArgs {
			i := i
			ms = append(ms,
				fieldMut{fmt.Sprintf("forward call %d target", i), func(_ *consensustypes.QueuedSignedMessage, m *evmtypes.Message) {
					f := &m.Action.(*evmtypes.Message_CompassHandover).CompassHandover.ForwardCallArgs[i]
					f.HexContractAddress = flipAddr(f.HexContractAddress)
				}},
				fieldMut{fmt.Sprintf("forward call %d payload", i), func(_ *consensustypes.QueuedSignedMessage, m *evmtypes.Message) {
					f := &m.Action.(*evmtypes.Message_CompassHandover).CompassHandover.ForwardCallArgs[i]
					f.Payload = append(append([]byte(nil), f.Payload...), 1)
				}},
			)
		}
	}
	return ms
}

// feeValueFamily checks "every pair of values" for the fee triple of a message that carries fees: a menu of explicit
// triples (boundary values, all-equal triples and the current fees with one component replaced) must give pairwise
// different signing bytes whenever the triples differ.
func (w *JobWorld) feeValueFamily(q *QMsg, h int64) []*core.Violation {
	setFees := func(m *evmtypes.Message, f *evmtypes.Fees) bool {
		switch a := m.Action.(type) {
		case *evmtypes.Message_SubmitLogicCall:
			a.SubmitLogicCall.Fees = f
			return true
		case *evmtypes.Message_UploadUserSmartContract:
			a.UploadUserSmartContract.Fees = f
			return true
		}
		return false
	}
	var cur *evmtypes.Fees
	switch a := q.Msg.Action.(type) {
	case *evmtypes.Message_SubmitLogicCall:
		cur = a.SubmitLogicCall.Fees
	case *evmtypes.Message_UploadUserSmartContract:
		cur = a.UploadUserSmartContract.Fees
	default:
		return nil
	}
	menu := []uint64{0, 1, 2, 21_000, 99_999, 100_000, 100_001, 300_000, 1 << 32, 1 << 63, ^uint64(0)}
	var triples []evmtypes.Fees
	for _, v := range menu {
		triples = append(triples, evmtypes.Fees{RelayerFee: v, CommunityFee: v, SecurityFee: v})
	}
	if cur != nil {
		v := menu[w.T.Intn(len(menu))]
		triples = append(triples, evmtypes.Fees{RelayerFee: v, CommunityFee: cur.CommunityFee, SecurityFee: cur.SecurityFee},
			evmtypes.Fees{RelayerFee: cur.RelayerFee, CommunityFee: v, SecurityFee: cur.SecurityFee},
			evmtypes.Fees{RelayerFee: cur.RelayerFee, CommunityFee: cur.CommunityFee, SecurityFee: v})
	}
	seen := map[string]evmtypes.Fees{}
	var out []*core.Violation
	for _, f := range triples {
		f := f
		got, ok := w.mutatedBytes(q.Raw, func(_ *consensustypes.QueuedSignedMessage, m *evmtypes.Message) { setFees(m, &f) })
		if !ok {
			continue
		}
		w.R.Stats.Probe("c05_fee_value_pairs")
		if other, dup := seen[string(got)]; dup && other != f {
			out = append(out, vio("C05", "field-not-bound", h, map[string]string{"field": "fees (value pair)", "action": fmt.Sprintf("%T", q.Msg.Action)},
				fmt.Sprintf("message %d (%T): fees %d/%d/%d and fees %d/%d/%d give the same bytes to sign (%x)", q.ID, q.Msg.Action,
					other.RelayerFee, other.CommunityFee, other.SecurityFee, f.RelayerFee, f.CommunityFee, f.SecurityFee, got)))
			break
		}
		seen[string(got)] = f
	}
	return out
}

func (w *JobWorld) oracleC05fields(br *world.BlockResult) []*core.Violation {
	var out []*core.Violation
	for _, id := range SortedIDs(w.Cur) {
		q := w.Cur[id]
		if q.Msg == nil || q.Bytes == nil {
			continue
		}
		if p := w.Prev[id]; p != nil && bytes.Equal(p.Bytes, q.Bytes) && p.Raw.GasEstimate == q.Raw.GasEstimate {
			continue // unchanged since the last boundary: already checked in this lifecycle stage
		}
		muts := deliveredFieldMutations(q)
		out = append(out, w.feeValueFamily(q, br.Height)...)
		base, ok := w.mutatedBytes(q.Raw, func(*consensustypes.QueuedSignedMessage, *evmtypes.Message) {})
		if !ok || !bytes.Equal(base, q.Bytes) {
			core.Harnessf("identity mutation changes signing bytes of message %d", id)
		}
		for i, mu := range muts {
			got, ok := w.mutatedBytes(q.Raw, mu.f)
			if !ok {
				continue
			}
			w.R.Stats.Probe("c05_field_mutations")
			if bytes.Equal(got, q.Bytes) {
				out = append(out, vio("C05", "field-not-bound", br.Height, map[string]string{"field": mu.name, "action": fmt.Sprintf("%T", q.Msg.Action)},
					fmt.Sprintf("message %d (%T): changing the %s leaves the bytes validators sign unchanged (%x)", id, q.Msg.Action, mu.name, q.Bytes)))
			}
			// pairs of fields: one more mutation on top
			if j := (i + 1) % len(muts); j != i && w.T.Draw(6) == 0 {
				both, ok := w.mutatedBytes(q.Raw, func(qq *consensustypes.QueuedSignedMessage, m *evmtypes.Message) { mu.f(qq, m); muts[j].f(qq, m) })
				if ok && bytes.Equal(both, q.Bytes) {
					out = append(out, vio("C05", "field-pair-not-bound", br.Height, map[string]string{"field": mu.name + " + " + muts[j].name},
						fmt.Sprintf("message %d: changing %s and %s together leaves the signing bytes unchanged", id, mu.name, muts[j].name)))
				}
			}
		}
	}
	return out
}

// ---------------- C07 ----------------

// calldataMatches re-encodes the compass call for q with every signature prefix (the simulator's own encoder) and compares.
func (w *JobWorld) calldataMatches(q *QMsg, valsetID uint64, data []byte) bool {
	ctx := w.Ctx()
	if up, ok := q.Msg.Action.(*evmtypes.Message_UploadSmartContract); ok {
		want := append(append([]byte(nil), up.UploadSmartContract.Bytecode...), up.UploadSmartContract.ConstructorInput...)
		return bytes.Equal(want, data)
	}
	res, err := w.N.App.EvmKeeper.GetValsetByID(ctx, &evmtypes.QueryGetValsetByIDRequest{ValsetID: valsetID, ChainReferenceID: q.Chain})
	if err != nil || valsetID == 0 {
		return false
	}
	p := w.Pigeons[0]
	for n := len(q.Raw.SignData); n > 0; n-- {
		enc, _, err := p.CallData(q.Chain, queueMsgAsQuery(q, n), q.Msg, res.Valset, common.HexToAddress(q.Msg.AssigneeRemoteAddress))
		if err == nil && bytes.Equal(enc, data) {
			return true
		}
	}
	return false
}

type chainEffects struct {
	snapOnChain uint64
	compass     string
	activeID    uint64
	pending     map[uint64]string // smart contract id -> address recorded for a deployment that awaits its handover
}

func fmtID(id uint64) string { return fmt.Sprint(id) }

func sortedU64(m map[uint64]string) []uint64 {
	out := make([]uint64, 0, len(m))
	for k := range m {
		out = append(out, k)
	}
	sort.Slice(out, func(i, j int) bool { return out[i] < out[j] })
	return out
}

func (w *JobWorld) effects() map[string]chainEffects {
	ctx := w.Ctx()
	out := map[string]chainEffects{}
	for _, c := range w.Order {
		var e chainEffects
		if s, err := w.N.App.ValsetKeeper.GetLatestSnapshotOnChain(ctx, c); err == nil {
			e.snapOnChain = s.Id
		}
		if ci, err := w.N.App.EvmKeeper.GetChainInfo(ctx, c); err == nil {
			e.compass = ci.SmartContractAddr
			e.activeID = ci.ActiveSmartContractID
		}
		e.pending = map[uint64]string{}
		if deps, err := w.N.App.EvmKeeper.AllSmartContractsDeployments(ctx); err == nil {
			for _, d := range deps {
				if d.ChainReferenceID == c && d.NewSmartContractAddress != "" {
					e.pending[d.SmartContractID] = d.NewSmartContractAddress
				}
			}
		}
		out[c] = e
	}
	return out
}

func (w *JobWorld) oracleC07(br *world.BlockResult, prevE *elig, prevFx, curFx map[string]chainEffects) []*core.Violation {
	var out []*core.Violation
	h := br.Height
	evNew, _ := w.blockSubmissions(br)
	justified := map[string]bool{} // chain -> an accepted proof explains an effect on it in this block
	justifiedCompass := map[string]bool{}
	for _, id := range SortedIDs(w.Prev) {
		q := w.Prev[id]
		if _, still := w.Cur[id]; still || q.Msg == nil {
			continue
		}
		latest := map[string]string{}
		for _, e := range q.Raw.Evidence {
			latest[e.ValAddress.String()] = e.Proof.TypeUrl + "|" + string(e.Proof.Value)
		}
		for _, e := range evNew[id] {
			latest[e.val] = e.proof
		}
		ok, proof := quorumGroup(latest, prevE)
		if !ok {
			continue
		}
		// decode the winning proof
		idx := bytes.IndexByte([]byte(proof), '|')
		typeURL, raw := proof[:idx], []byte(proof[idx+1:])
		if typeURL != "/palomachain.paloma.evm.TxExecutedProof" {
			continue
		}
		var tp evmtypes.TxExecutedProof
		if err := tp.Unmarshal(raw); err != nil {
			continue
		}
		tx, err1 := tp.GetTX()
		rc, err2 := tp.GetReceipt()
		if err1 != nil || err2 != nil {
			continue
		}
		var valsetID uint64
		if q.Raw.PublicAccessData != nil {
			valsetID = q.Raw.PublicAccessData.ValsetID
		}
		valid := rc.Status == 1 && w.calldataMatches(q, valsetID, tx.Data())
		fresh := !w.usedTx[tx.Hash()]
		w.R.Stats.Probe("c07_tx_proofs_checked")
		if !valid {
			w.R.Stats.Probe("c07_non_matching_proofs")
		}
		// which success effect does this message have?
		effect := ""
		switch a := q.Msg.Action.(type) {
		case *evmtypes.Message_UpdateValset:
			if curFx[q.Chain].snapOnChain == a.UpdateValset.Valset.ValsetID && prevFx[q.Chain].snapOnChain != a.UpdateValset.Valset.ValsetID {
				effect = fmt.Sprintf("validator snapshot %d marked live on %s", a.UpdateValset.Valset.ValsetID, q.Chain)
			}
		case *evmtypes.Message_UploadSmartContract:
			if curFx[q.Chain].activeID == a.UploadSmartContract.Id && prevFx[q.Chain].activeID != a.UploadSmartContract.Id {
				effect = fmt.Sprintf("bridge contract %d activated on %s at %s", a.UploadSmartContract.Id, q.Chain, curFx[q.Chain].compass)
			} else if curFx[q.Chain].pending[a.UploadSmartContract.Id] != "" && prevFx[q.Chain].pending[a.UploadSmartContract.Id] == "" {
				effect = fmt.Sprintf("new bridge contract %d recorded for %s at %s (awaiting handover)", a.UploadSmartContract.Id, q.Chain, curFx[q.Chain].pending[a.UploadSmartContract.Id])
				w.R.Stats.Probe("c07_redeploy_recorded")
			}
		case *evmtypes.Message_CompassHandover:
			if curFx[q.Chain].activeID == a.CompassHandover.Id && prevFx[q.Chain].activeID != a.CompassHandover.Id {
				effect = fmt.Sprintf("bridge contract %d activated on %s at %s after handover", a.CompassHandover.Id, q.Chain, curFx[q.Chain].compass)
				w.R.Stats.Probe("c07_handover_activated")
			}
		}
		if effect != "" {
			justifiedCompass[q.Chain] = true
		}
		if effect != "" {
			justified[q.Chain] = true
			w.R.Stats.Probe("c07_effects_seen")
			if !valid {
				out = append(out, vio("C07", "effect-from-non-matching-tx", h, map[string]string{"receipt_ok": fmt.Sprint(rc.Status == 1)},
					fmt.Sprintf("message %d: %s although the attested transaction %s does not carry this message (receipt status %d, call data equals the message's encoding with a signature prefix: %v)", id, effect, tx.Hash().Hex(), rc.Status, rc.Status == 1 && valid)))
			} else if !fresh {
				out = append(out, vio("C07", "tx-used-twice", h, nil, fmt.Sprintf("message %d: %s on the strength of transaction %s which had already proven another message", id, effect, tx.Hash().Hex())))
			}
		}
		if valid && fresh {
			w.usedTx[tx.Hash()] = true
			w.usedTxOrder = append(w.usedTxOrder, tx.Hash())
		} else if rc.Status == 1 && !w.usedTx[tx.Hash()] {
			// Paloma records every attested transaction as processed, matching or not
			w.usedTxOrder = append(w.usedTxOrder, tx.Hash())
		}
	}
	for _, c := range w.Order {
		// the bridge contract Paloma talks to (and records as awaiting handover) never changes without such a proof either
		if prevFx[c].activeID != 0 && (curFx[c].activeID != prevFx[c].activeID || curFx[c].compass != prevFx[c].compass) && !justifiedCompass[c] {
			out = append(out, vio("C07", "effect-without-proof", h, nil, fmt.Sprintf("active bridge contract on %s changed from %d at %s to %d at %s in a block in which no upload / handover message was removed with a quorum-backed transaction proof", c, prevFx[c].activeID, prevFx[c].compass, curFx[c].activeID, curFx[c].compass)))
		}
		for _, id := range sortedU64(curFx[c].pending) {
			if prevFx[c].pending[id] == "" && !justifiedCompass[c] {
				out = append(out, vio("C07", "effect-without-proof", h, nil, fmt.Sprintf("a new bridge contract address %s was recorded for deployment %s on %s in a block in which no upload message was removed with a quorum-backed transaction proof", curFx[c].pending[id], fmtID(id), c)))
			}
		}
		if curFx[c].snapOnChain != prevFx[c].snapOnChain && !justified[c] && prevFx[c].snapOnChain != 0 {
			out = append(out, vio("C07", "effect-without-proof", h, nil, fmt.Sprintf("snapshot live on %s changed from %d to %d in a block in which no message was removed with a quorum-backed transaction proof", c, prevFx[c].snapOnChain, curFx[c].snapOnChain)))
		}
	}
	return out
}
