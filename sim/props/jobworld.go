package props

import (
	"bytes"
	"encoding/hex"
	"encoding/json"
	"fmt"
	valsettypes "github.com/palomachain/paloma/v2/x/valset/types"
	"sort"
	"strconv"

	"cosmossdk.io/math"
	sdk "github.com/cosmos/cosmos-sdk/types"
	stakingtypes "github.com/cosmos/cosmos-sdk/x/staking/types"
	"github.com/ethereum/go-ethereum/common"
	"github.com/palomachain/paloma/v2/app"
	consensustypes "github.com/palomachain/paloma/v2/x/consensus/types"
	evmtypes "github.com/palomachain/paloma/v2/x/evm/types"
	schedulertypes "github.com/palomachain/paloma/v2/x/scheduler/types"
	"verifsim/core"
	"verifsim/world"
)

// JobSpec is the model's record of a created job.
type JobSpec struct {
	ID         string
	Owner      string
	Chain      string
	Contract   common.Address
	Payload    []byte // hex-decoded stored payload
	Modifiable bool
	MEV        bool
	Raw        []byte // marshalled Job as first seen in the store
}

type jobOp struct {
	kind    string // create | execute
	user    *world.Account
	via     *Contract // non-nil: the request is made by this contract (executed by user)
	job     *JobSpec
	jobID   string
	payload []byte // caller supplied (hex-decoded); nil = none
	rawIn   []byte
	tx      []byte
}

// QMsg is a snapshot of one queued message at a block boundary.
type QMsg struct {
	Queue string
	Chain string
	ID    uint64
	Raw   *consensustypes.QueuedSignedMessage
	Msg   *evmtypes.Message // nil for non-turnstone queues
	Bytes []byte            // bytes to sign as currently published
	Seen  int64             // height first seen
}

// JobWorld = bootstrapped bridge + jobs + per-block queue snapshots.
type JobWorld struct {
	*Bridge
	Gov     *Gov
	Jobs    map[string]*JobSpec
	pending []*jobOp
	forget  bool
	// queue snapshots
	Prev  map[uint64]*QMsg
	Cur   map[uint64]*QMsg
	MaxID uint64
	// ExecOK lists successful executions of the last block: op + message id
	LastExec []execResult
	// registered external addresses over time: val idx -> chain -> list of addresses ever registered
	Registered  map[int]map[string][]common.Address
	seenIDs     map[uint64]bool
	sigOK       map[string]bool
	quorumSince map[uint64]int64
	usedTx      map[common.Hash]bool
	usedTxOrder []common.Hash
	hooks       []func(*JobWorld, *world.BlockResult)
	rotated     map[int]map[string]*world.EthKey // Byzantine key rotations: validator -> chain -> new key
	// Granter has given a fee grant to Grantee, whose key may sign requests made in Granter's name
	Granter, Grantee *world.Account
	// Contracts are instances of the echo contract: principals with 32-byte addresses that create and run jobs through the wasm bindings
	Contracts []*Contract
}

// requester is the principal in whose name the operation is made.
func (op *jobOp) requester() sdk.AccAddress {
	if op.via != nil {
		return op.via.Addr
	}
	return op.user.Addr
}

func (op *jobOp) who() string {
	if op.via != nil {
		return "contract " + op.via.Addr.String()[:14] + " (run by " + op.user.Name + ")"
	}
	return op.user.Name
}

type execResult struct {
	op    *jobOp
	ok    bool
	msgID uint64
	log   string
}

// NewJobWorld builds and bootstraps the world. An optional hook runs after every block, including the bootstrap blocks.
func NewJobWorld(r *core.Run, cfg BridgeCfg, hooks ...func(*JobWorld, *world.BlockResult)) *JobWorld {
	restart, crash, jump := cfg.RestartPerMille, cfg.CrashPerMille, cfg.JumpPerMille
	cfg.RestartPerMille, cfg.CrashPerMille, cfg.JumpPerMille = 0, 0, 0
	b := NewBridge(r, cfg)
	w := &JobWorld{Bridge: b, Gov: NewGov(b.Sim), Jobs: map[string]*JobSpec{}, Prev: map[uint64]*QMsg{}, Cur: map[uint64]*QMsg{}, Registered: map[int]map[string][]common.Address{}, seenIDs: map[uint64]bool{}, sigOK: map[string]bool{}, usedTx: map[common.Hash]bool{}}
	w.hooks = hooks
	for i, v := range b.Vals {
		w.Registered[i] = map[string][]common.Address{}
		for c, k := range v.Eth {
			w.Registered[i][c] = []common.Address{k.Addr}
		}
	}
	prev := b.Sim.OnRestart
	b.Sim.OnRestart = func() {
		if prev != nil {
			prev()
		}
		w.forget = true
	}
	// observe queues during bootstrap as well
	for i := 0; i < 170 && !b.Aborted; i++ {
		all := true
		for _, id := range b.Order {
			if !b.BCfg.NoFeeChains[id] && !b.ChainActive(id) {
				all = false
			}
		}
		if all {
			b.bootstrapped = true
			break
		}
		w.Step()
	}
	if !b.bootstrapped && !b.Aborted {
		core.Harnessf("bridge bootstrap did not complete (height %d)", b.N.Height)
	}
	if len(b.Users) >= 2 && !b.Aborted {
		g, e := b.Users[0], b.Users[len(b.Users)-1]
		res := b.Submit(g, mustGrant(g, e))
		w.Step()
		if r := b.Result(res.Tx); res.Accepted() && r != nil && r.Code == 0 {
			w.Granter, w.Grantee = g, e
		}
	}
	if cfg.NContracts > 0 && !b.Aborted {
		w.Contracts = DeployEcho(b.Sim, b.Users[0], cfg.NContracts, w.Step)
	}
	b.Sim.Cfg.RestartPerMille, b.Sim.Cfg.CrashPerMille, b.Sim.Cfg.JumpPerMille = restart, crash, jump
	r.Trace.Event("bootstrapped", "h=%d", b.N.Height)
	return w
}

// Step = governance tick + pigeons + block + queue snapshot + tx result digestion.
func (w *JobWorld) Step() *world.BlockResult {
	w.Gov.Tick()
	br := w.Bridge.Step()
	if w.Aborted || br == nil {
		return br
	}
	w.snapshotQueues(br.Height)
	w.digest(br)
	for _, hk := range w.hooks {
		hk(w, br)
	}
	return br
}

func (w *JobWorld) snapshotQueues(h int64) {
	ctx := w.Ctx()
	ck := w.N.App.ConsensusKeeper
	cdc := w.N.App.AppCodec()
	w.Prev = w.Cur
	w.Cur = map[uint64]*QMsg{}
	chains, err := w.N.App.EvmKeeper.GetAllChainInfos(ctx)
	if err != nil {
		core.Harnessf("chain infos: %v", err)
	}
	for _, ci := range chains {
		for _, sub := range []string{evmtypes.ConsensusTurnstoneMessage, "validators-balances", "reference-block", "collect-fund-events"} {
			qn := consensustypes.Queue(sub, consensustypes.ChainTypeEVM, ci.ChainReferenceID)
			msgs, err := ck.GetMessagesFromQueue(ctx, qn, 0)
			if err != nil {
				continue
			}
			for _, m := range msgs {
				raw, ok := m.(*consensustypes.QueuedSignedMessage)
				if !ok {
					continue
				}
				q := &QMsg{Queue: qn, Chain: ci.ChainReferenceID, ID: raw.Id, Raw: raw, Seen: h}
				if p, ok := w.Prev[raw.Id]; ok {
					q.Seen = p.Seen
				}
				if cm, err := raw.ConsensusMsg(cdc); err == nil {
					if em, ok := cm.(*evmtypes.Message); ok {
						q.Msg = em
					}
				}
				if raw.RequireSignatures {
					if bz, err := raw.GetBytesToSign(cdc); err == nil {
						q.Bytes = bz
					}
				}
				w.Cur[raw.Id] = q
			}
		}
	}
}

// SortedIDs returns message ids of a snapshot in ascending order.
func SortedIDs(m map[uint64]*QMsg) []uint64 {
	ids := make([]uint64, 0, len(m))
	for id := range m {
		ids = append(ids, id)
	}
	sort.Slice(ids, func(i, j int) bool { return ids[i] < ids[j] })
	return ids
}

// ---- jobs ----

func jobDefinition(contract common.Address) []byte {
	bz, _ := json.Marshal(map[string]string{"address": contract.Hex(), "ABI": "[]"})
	return bz
}

func jobPayload(p []byte) []byte {
	bz, _ := json.Marshal(map[string]string{"hexPayload": hex.EncodeToString(p)})
	return bz
}

// jobPayload0x writes the same bytes with the customary 0x prefix (both spellings denote the same payload).
func jobPayload0x(p []byte) []byte {
	bz, _ := json.Marshal(map[string]string{"hexPayload": "0x" + hex.EncodeToString(p)})
	return bz
}

func (w *JobWorld) CreateJob(u *world.Account, id, chain string, contract common.Address, payload []byte, modifiable, mev bool, forgedOwner sdk.AccAddress) {
	enc := jobPayload
	if w.T.Draw(4) == 3 {
		enc = jobPayload0x
		w.R.Stats.Probe("job_payload_with_0x_prefix")
	}
	job := &schedulertypes.Job{ID: id, Owner: forgedOwner, Routing: schedulertypes.Routing{ChainType: "evm", ChainReferenceID: chain},
		Definition: jobDefinition(contract), Payload: enc(payload), IsPayloadModifiable: modifiable, EnforceMEVRelay: mev}
	res := w.Submit(u, &schedulertypes.MsgCreateJob{Metadata: meta(u), Job: job})
	if res.Accepted() {
		w.pending = append(w.pending, &jobOp{kind: "create", user: u, tx: res.Tx,
			job: &JobSpec{ID: id, Owner: u.Bech32(), Chain: chain, Contract: contract, Payload: payload, Modifiable: modifiable, MEV: mev}})
	}
}

// ContractCreateJob lets a contract create a job through the scheduler binding.
func (w *JobWorld) ContractCreateJob(u *world.Account, c *Contract, id, chain string, contract common.Address, payload []byte, modifiable, mev bool) {
	custom := map[string]any{"scheduler_msg": map[string]any{"create_job": map[string]any{"job": map[string]any{
		"job_id": id, "chain_type": "evm", "chain_reference_id": chain, "definition": string(jobDefinition(contract)), "payload": string(jobPayload(payload)),
		"payload_modifiable": modifiable, "is_mev": mev}}}}
	res := c.ExecuteVia(w.Sim, u, custom)
	if res.Accepted() {
		w.pending = append(w.pending, &jobOp{kind: "create", user: u, via: c, tx: res.Tx,
			job: &JobSpec{ID: id, Owner: c.Addr.String(), Chain: chain, Contract: contract, Payload: payload, Modifiable: modifiable, MEV: mev}})
	}
}

// ContractExecuteJob lets a contract request a job execution (the binding requires a caller payload).
func (w *JobWorld) ContractExecuteJob(u *world.Account, c *Contract, id string, payload []byte) {
	custom := map[string]any{"scheduler_msg": map[string]any{"execute_job": map[string]any{"job_id": id, "sender": c.Addr.String(), "payload": payload}}}
	res := c.ExecuteVia(w.Sim, u, custom)
	if res.Accepted() {
		w.pending = append(w.pending, &jobOp{kind: "execute", user: u, via: c, jobID: id, payload: payload, rawIn: jobPayload(payload), tx: res.Tx})
	}
}

// ContractExecuteJobLegacy uses the legacy custom message format {"job_id":..,"payload":..} that older contracts send.
func (w *JobWorld) ContractExecuteJobLegacy(u *world.Account, c *Contract, id string, payload []byte) {
	if len(payload) == 0 {
		// the legacy format has no way to say "no payload" (an absent one is executed as an empty caller payload - its
		// emptiness check runs after the payload was wrapped into JSON and never fires; DESIGN 11.3): always supply one
		payload = []byte{0x01, 0x02, 0x03, 0x04}
	}
	custom := map[string]any{"job_id": id, "payload": payload}
	res := c.ExecuteVia(w.Sim, u, custom)
	if res.Accepted() {
		w.R.Stats.Probe("contract_legacy_message")
		w.pending = append(w.pending, &jobOp{kind: "execute", user: u, via: c, jobID: id, payload: payload, rawIn: jobPayload(payload), tx: res.Tx})
	}
}

func (w *JobWorld) ExecuteJob(u *world.Account, id string, payload []byte) {
	var in []byte
	if payload != nil {
		in = jobPayload(payload)
		if w.T.Draw(4) == 3 {
			in = jobPayload0x(payload)
		}
	}
	signer, md := u, meta(u)
	if u == w.Granter && w.T.Draw(3) == 1 {
		// the request is made in u's name but signed by the key holding a fee grant from u
		signer = w.Grantee
		md = valsettypes.MsgMetadata{Creator: u.Bech32(), Signers: []string{signer.Bech32()}}
		w.R.Stats.Probe("job_execution_signed_by_grantee")
	}
	res := w.Submit(signer, &schedulertypes.MsgExecuteJob{Metadata: md, JobID: id, Payload: in})
	if res.Accepted() {
		w.pending = append(w.pending, &jobOp{kind: "execute", user: u, jobID: id, payload: payload, rawIn: in, tx: res.Tx})
	}
}

func (w *JobWorld) digest(br *world.BlockResult) {
	w.LastExec = nil
	order := map[string]int{}
	for i, tx := range br.Txs {
		order[string(tx)] = i
	}
	var rest, done []*jobOp
	for _, op := range w.pending {
		if _, in := order[string(op.tx)]; in {
			done = append(done, op)
		} else {
			rest = append(rest, op)
		}
	}
	w.pending = rest
	if w.forget {
		w.pending = nil
		w.forget = false
	}
	sort.SliceStable(done, func(i, j int) bool { return order[string(done[i].tx)] < order[string(done[j].tx)] })
	ctx := w.Ctx()
	for _, op := range done {
		res := world.TxResultIn(br, op.tx)
		ok := res.Code == 0
		switch op.kind {
		case "create":
			w.R.Trace.Event("create-job", "%s %s ok=%v", op.who(), op.job.ID, ok)
			if ok && op.via != nil {
				w.R.Stats.Probe("job_created_by_contract")
			}
			if ok {
				w.R.Stats.Probe("job_created")
				if _, dup := w.Jobs[op.job.ID]; !dup {
					stored, err := w.N.App.SchedulerKeeper.GetJob(ctx, op.job.ID)
					if err == nil {
						op.job.Raw, _ = stored.Marshal()
					}
					w.Jobs[op.job.ID] = op.job
				}
			}
			w.LastExec = append(w.LastExec, execResult{op: op, ok: ok, log: res.Log})
		case "execute":
			var msgID uint64
			if ok {
				w.R.Stats.Probe("job_executed")
				var md sdk.TxMsgData
				if op.via != nil {
					if v, ok := anyAttr(res.Events, "msg-id"); ok {
						msgID, _ = strconv.ParseUint(v, 10, 64)
					}
				} else if err := md.Unmarshal(res.Data); err == nil && len(md.MsgResponses) > 0 {
					var resp schedulertypes.MsgExecuteJobResponse
					if err := resp.Unmarshal(md.MsgResponses[0].Value); err == nil {
						msgID = resp.MessageID
					}
				}
			} else {
				w.R.Stats.Probe("job_execute_failed")
			}
			w.R.Trace.Event("execute-job", "%s %s ok=%v msg=%d", op.who(), op.jobID, ok, msgID)
			if ok && op.via != nil {
				w.R.Stats.Probe("job_executed_by_contract")
			}
			w.LastExec = append(w.LastExec, execResult{op: op, ok: ok, msgID: msgID, log: res.Log})
		}
	}
}

// Delegate changes a validator's stake (makes new snapshots worthy).
func (w *JobWorld) Delegate(u *world.Account, vi int, amt int64) {
	w.Submit(u, stakingtypes.NewMsgDelegate(u.Bech32(), w.Vals[vi].Acct.ValBech32(), sdk.NewCoin(app.BondDenom, math.NewInt(amt))))
}

// RandomJobTraffic issues a seeded mix of job creations / executions / delegations.
func (w *JobWorld) RandomJobTraffic(maxOps int) {
	t := w.T
	n := t.Intn(maxOps + 1)
	for i := 0; i < n; i++ {
		u := w.Users[t.Intn(len(w.Users))]
		var via *Contract
		if len(w.Contracts) > 0 && t.Draw(3) == 1 {
			via = w.Contracts[t.Intn(len(w.Contracts))]
		}
		switch k := t.Draw(10); {
		case k < 2 || len(w.Jobs) == 0:
			id := fmt.Sprintf("job-%d", t.Intn(12))
			if t.Draw(12) == 0 {
				id = []string{"", "UPPER", "has space", "with-paloma-in", "x" + string(bytes.Repeat([]byte("y"), 40))}[t.Intn(5)]
			}
			chain := w.Order[t.Intn(len(w.Order))]
			var forged sdk.AccAddress
			if t.Draw(4) == 0 {
				forged = w.Users[t.Intn(len(w.Users))].Addr
			}
			if via != nil {
				w.ContractCreateJob(u, via, id, chain, common.BytesToAddress(t.Bytes(20)), t.Bytes(4+t.Intn(40)), t.Draw(2) == 1, t.Draw(6) == 0)
				continue
			}
			w.CreateJob(u, id, chain, common.BytesToAddress(t.Bytes(20)), t.Bytes(4+t.Intn(40)), t.Draw(2) == 1, t.Draw(6) == 0, forged)
		case k < 9:
			// keep the backlog bounded: a sender with two undelivered calls waits
			inflight := 0
			sender := u.Addr.Bytes()
			if via != nil {
				sender = via.Addr.Bytes()
			}
			for _, q := range w.Cur {
				if q.Msg != nil {
					if a, ok := q.Msg.Action.(*evmtypes.Message_SubmitLogicCall); ok && bytes.Equal(a.SubmitLogicCall.SenderAddress, sender) {
						inflight++
					}
				}
			}
			if inflight >= 2 {
				continue
			}
			ids := core.SortedKeys(w.Jobs)
			id := ids[t.Intn(len(ids))]
			if t.Draw(15) == 0 {
				id = "no-such-job"
			}
			var payload []byte
			if t.Draw(2) == 1 {
				payload = t.Bytes(4 + t.Intn(36))
			}
			if via != nil {
				if payload == nil && t.Draw(4) != 0 {
					payload = t.Bytes(4 + t.Intn(36))
				}
				if t.Draw(3) == 2 {
					w.ContractExecuteJobLegacy(u, via, id, payload)
				} else {
					w.ContractExecuteJob(u, via, id, payload)
				}
				continue
			}
			w.ExecuteJob(u, id, payload)
		default:
			w.Delegate(u, t.Intn(len(w.Vals)), int64(1_000_000*(1+t.Intn(500))))
			w.R.Stats.Probe("delegations")
		}
	}
}
