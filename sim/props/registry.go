// Package props holds one scenario (workload + faults + oracle) per property.
package props

import (
	"sort"

	"verifsim/core"
)

// Scenario executes one simulated run and returns the violations it found.
type Scenario func(r *core.Run) []*core.Violation

var registry = map[string]Scenario{}

func Register(id string, s Scenario) { registry[id] = s }

func Get(id string) (Scenario, bool) { s, ok := registry[id]; return s, ok }

func IDs() []string {
	var out []string
	for k := range registry {
		out = append(out, k)
	}
	sort.Strings(out)
	return out
}

// vio is a small helper to build a violation.
func vio(prop, class string, block int64, facts map[string]string, detail string) *core.Violation {
	return &core.Violation{Property: prop, Class: class, Block: block, Facts: facts, Detail: detail}
}
