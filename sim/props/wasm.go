package props

import (
	"encoding/base64"
	"encoding/json"
	"fmt"
	abci "github.com/cometbft/cometbft/abci/types"

	wasmtypes "github.com/CosmWasm/wasmd/x/wasm/types"
	sdk "github.com/cosmos/cosmos-sdk/types"
	"github.com/ethereum/go-ethereum/common"
	"verifsim/core"
	"verifsim/wasmecho"
	"verifsim/world"
)

func init() { Register("WASM", wasmDebug) }

// Contract is an instance of the echo contract (wasmecho): whoever executes it chooses the
// sub-messages the contract sends, which the chain dispatches with the contract as sender.
type Contract struct {
	Addr  sdk.AccAddress
	Owner *world.Account
}

// DeployEcho stores the echo contract and instantiates n copies (blocks are produced with step).
func DeployEcho(s *Sim, owner *world.Account, n int, step func() *world.BlockResult) []*Contract {
	res := s.Submit(owner, &wasmtypes.MsgStoreCode{Sender: owner.Bech32(), WASMByteCode: wasmecho.Code})
	if !res.Accepted() {
		core.Harnessf("store code refused: %v %v", res.Err, res.Check)
	}
	step()
	if r := s.Result(res.Tx); r == nil || r.Code != 0 {
		core.Harnessf("store code failed: %v", r)
	}
	var out []*Contract
	for i := 0; i < n; i++ {
		res := s.Submit(owner, &wasmtypes.MsgInstantiateContract{Sender: owner.Bech32(), CodeID: 1, Label: fmt.Sprintf("echo%d", i), Msg: []byte(`{}`)})
		if !res.Accepted() {
			core.Harnessf("instantiate refused: %v %v", res.Err, res.Check)
		}
		br := step()
		r := s.Result(res.Tx)
		if r == nil || r.Code != 0 {
			core.Harnessf("instantiate failed: %v", r)
		}
		addr, ok := eventAttr(append(br.Events, r.Events...), "instantiate", "_contract_address")
		if !ok {
			core.Harnessf("no contract address in events")
		}
		a, err := sdk.AccAddressFromBech32(addr)
		if err != nil {
			core.Harnessf("contract address: %v", err)
		}
		out = append(out, &Contract{Addr: a, Owner: owner})
	}
	return out
}

// customResponse builds the Response JSON that makes the echo contract send one custom message.
func customResponse(custom any) []byte {
	cm, err := json.Marshal(custom)
	if err != nil {
		panic(err)
	}
	resp := map[string]any{
		"messages":   []any{map[string]any{"id": 0, "msg": map[string]any{"custom": json.RawMessage(cm)}, "gas_limit": nil, "reply_on": "never", "payload": ""}},
		"attributes": []any{}, "events": []any{}, "data": nil,
	}
	bz, err := json.Marshal(resp)
	if err != nil {
		panic(err)
	}
	return bz
}

// ExecuteVia makes `caller` execute the contract so that the contract sends `custom`.
func (c *Contract) ExecuteVia(s *Sim, caller *world.Account, custom any) world.SubmitResult {
	return s.Submit(caller, &wasmtypes.MsgExecuteContract{Sender: caller.Bech32(), Contract: c.Addr.String(), Msg: customResponse(custom)})
}

func b64(b []byte) string { return base64.StdEncoding.EncodeToString(b) }

// wasmDebug is a harness self-test: the hand-assembled contract stores, instantiates and dispatches a custom message.
func wasmDebug(r *core.Run) []*core.Violation {
	cfg := SimCfg{NVals: 2, NUsers: 2, InitialHeight: 1}
	s := NewSim(r, cfg)
	cs := DeployEcho(s, s.Users[0], 2, s.Block)
	r.Sample = append(r.Sample, fmt.Sprintf("contracts: %s (%d bytes) %s", cs[0].Addr, len(cs[0].Addr), cs[1].Addr))
	// the contract creates a job through the scheduler binding
	job := map[string]any{"scheduler_msg": map[string]any{"create_job": map[string]any{"job": map[string]any{
		"job_id": "wjob", "chain_type": "evm", "chain_reference_id": "eth-main", "definition": string(jobDefinition(common.Address{19: 1})), "payload": string(jobPayload([]byte{1, 2})), "payload_modifiable": true, "is_mev": false}}}}
	res := cs[0].ExecuteVia(s, s.Users[1], job)
	s.Block()
	tr := s.Result(res.Tx)
	r.Sample = append(r.Sample, fmt.Sprintf("execute: accepted=%v result=%v", res.Accepted(), tr))
	if j, err := s.N.App.SchedulerKeeper.GetJob(s.Ctx(), "wjob"); err == nil {
		r.Sample = append(r.Sample, fmt.Sprintf("job owner=%s", j.Owner))
		r.Stats.Probe("target")
	} else {
		r.Sample = append(r.Sample, "no job: "+err.Error())
	}
	return nil
}

// anyAttr finds the first attribute with the given key in any event.
func anyAttr(evs []abci.Event, key string) (string, bool) {
	for _, e := range evs {
		for _, a := range e.Attributes {
			if a.Key == key {
				return a.Value, true
			}
		}
	}
	return "", false
}
