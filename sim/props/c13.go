package props

import (
	"encoding/hex"
	"fmt"
	"math/big"
	"sort"

	codectypes "github.com/cosmos/cosmos-sdk/codec/types"
	"github.com/ethereum/go-ethereum/common"
	skywaytypes "github.com/palomachain/paloma/v2/x/skyway/types"
	"verifsim/core"
	"verifsim/evmsim"
)

func init() { Register("C13", c13) }

type c13Evidence struct {
	subject    *codectypes.Any
	sig        string
	chain      string
	checkpoint string // hex of the checkpoint the signature is over (computed by the simulator's own scheme)
	signer     int    // validator index
	genuine    bool   // taken from a confirmation the chain accepted
	stage      string // stage of the batch when the confirmation was harvested
	sentAt     []int64
	key        string
}

type c13Pending struct {
	ev   *c13Evidence
	tx   []byte
	when string
}

// batchDigest recomputes a batch checkpoint with the simulator's own implementation of the compass scheme.
func batchDigest(bt *skywaytypes.OutgoingTxBatch, compassID []byte) []byte {
	var id [32]byte
	copy(id[:], compassID)
	var a evmsim.TokenSendArgs
	for _, tx := range bt.Transactions {
		a.Receiver = append(a.Receiver, common.HexToAddress(tx.DestAddress))
		a.Amount = append(a.Amount, tx.Erc20Token.Amount.BigInt())
	}
	gas := bt.GasEstimate
	if gas == 0 {
		gas = 300_000 // "no estimate elected yet" is encoded as the contract default (DESIGN §4 C05)
	}
	return evmsim.BatchDigest(common.HexToAddress(bt.TokenContract), a, bigU(bt.BatchNonce), id, bigU(bt.BatchTimeout),
		common.BytesToAddress(bt.AssigneeRemoteAddress), new(big.Int).SetUint64(gas))
}

func c13(r *core.Run) []*core.Violation {
	if r.Tape.Draw(4) == 3 {
		return c13Prune(r)
	}
	return c13EvidenceProfile(r)
}

func c13EvidenceProfile(r *core.Run) []*core.Violation {
	t := r.Tape
	cfg := BridgeCfg{Chains: []ChainSpec{{"eth-main", 1}}}
	if t.Draw(3) == 2 {
		cfg.Chains = append(cfg.Chains, ChainSpec{"bnb-main", 56})
	}
	cfg.NVals = 4 + t.Intn(3)
	cfg.NUsers = 3
	cfg.InitialHeight = 40
	cfg.JumpPerMille = 12
	w := NewSkyWorld(r, cfg, 1+t.Intn(2), "C13")
	if w.Aborted {
		w.abortNote("C13")
		return nil
	}
	lag := int64([]int{0, 0, 2, 6}[t.Intn(4)]) // slow estimators leave time for confirmations of the original checkpoint
	for _, p := range w.Pigeons {
		p.EagerConfirm = t.Draw(2) == 1
		p.BatchEstimateLag = lag
	}
	replayer := w.Users[len(w.Users)-1]
	published := map[string]bool{}
	stash := map[string]*c13Evidence{}
	var stashKeys []string
	var pending []*c13Pending
	var viols []*core.Violation
	jailedBefore := make([]bool, len(w.Vals))
	ethOf := func(chain string, addr string) int {
		for i, v := range w.Vals {
			if k, ok := v.Eth[chain]; ok && k.Addr == common.HexToAddress(addr) {
				return i
			}
		}
		return -1
	}
	submit := func(ev *c13Evidence, when string) {
		subject := ev.subject
		// whoever replays a confirmation is free to dress up every value of the subject that does not enter the
		// checkpoint (the checkpoint the signature is over stays one the chain published)
		if ev.genuine && t.Draw(3) == 0 {
			var bt skywaytypes.OutgoingTxBatch
			if err := bt.Unmarshal(ev.subject.Value); err == nil {
				kind := t.Intn(6)
				switch kind {
				case 0:
					bt.BytesToSign = []byte(fmt.Sprintf("%032d", t.Intn(1_000_000)))
				case 1:
					bt.BytesToSign = nil
				case 2:
					bt.BytesToSign = []byte{byte(1 + t.Intn(255))}
				case 3:
					bt.Assignee = w.Vals[t.Intn(len(w.Vals))].Acct.ValAddr().String()
				case 4:
					bt.PalomaBlockCreated += uint64(1 + t.Intn(1000))
				default:
					if len(bt.Transactions) > 0 {
						bt.Transactions = append([]skywaytypes.OutgoingTransferTx(nil), bt.Transactions...)
						bt.Transactions[0].Id += uint64(1 + t.Intn(50))
						bt.Transactions[0].Sender = replayer.Bech32()
					}
				}
				if dressed, err := codectypes.NewAnyWithValue(&bt); err == nil {
					subject = dressed
					r.Stats.Fault(fmt.Sprintf("evidence_subject_dressed_up_%d", kind))
				}
			}
		}
		res := w.Submit(replayer, &skywaytypes.MsgSubmitBadSignatureEvidence{Metadata: meta(replayer), Subject: subject, Signature: ev.sig, ChainReferenceId: ev.chain})
		if res.Accepted() {
			pending = append(pending, &c13Pending{ev, res.Tx, when})
			ev.sentAt = append(ev.sentAt, w.N.Height)
		}
	}
	nBlocks := 110 + t.Intn(120)
	for i := 0; i < nBlocks && !w.Aborted && len(viols) == 0; i++ {
		w.RandomClientOps()
		// replay stashed confirmations much later (after execution, cancellation, timeout, re-estimation)
		if len(stashKeys) > 0 && t.Chance(1, 3) {
			submit(stash[stashKeys[t.Intn(len(stashKeys))]], "later")
			r.Stats.Probe("evidence_replayed_later")
		}
		w.Gov.Tick()
		br := w.Step()
		if w.Aborted {
			break
		}
		for _, v := range w.AfterBlock(br) {
			r.Note("C01", v.Class, "%s", v.Detail)
		}
		ctx := w.Ctx()
		sk := w.N.App.SkywayKeeper
		// results of evidence transactions
		var rest []*c13Pending
		for _, p := range pending {
			res := w.Result(p.tx)
			if res == nil {
				rest = append(rest, p)
				continue
			}
			ok := res.Code == 0
			r.Trace.Event("evidence", "signer=val%d genuine=%v stage=%s when=%s accepted=%v", p.ev.signer, p.ev.genuine, p.ev.stage, p.when, ok)
			if p.ev.genuine {
				r.Stats.Probe("genuine_evidence_" + p.ev.stage)
			}
			if !ok {
				continue
			}
			if p.ev.genuine {
				nowJailed := false
				if p.ev.signer >= 0 {
					sv, err := w.N.App.StakingKeeper.GetValidator(ctx, w.Vals[p.ev.signer].Acct.ValAddr())
					nowJailed = err == nil && sv.Jailed
				}
				viols = append(viols, vio("C13", "punished-for-published-checkpoint", br.Height,
					map[string]string{"stage": p.ev.stage},
					fmt.Sprintf("bad-signature evidence built from a confirmation that the chain itself accepted (validator val%d, batch %s, confirmation made when the batch was %q, replayed %s) was accepted; the signed checkpoint %s was published by the chain for signing (in published set: %v); validator jailed now: %v (was jailed before: %v)",
						p.ev.signer, p.ev.key, p.ev.stage, p.when, p.ev.checkpoint[:16], published[p.ev.checkpoint], nowJailed, p.ev.signer >= 0 && jailedBefore[p.ev.signer])))
			} else {
				r.Stats.Probe("fake_batch_evidence_accepted")
			}
		}
		pending = rest
		for vi, v := range w.Vals {
			sv, err := w.N.App.StakingKeeper.GetValidator(ctx, v.Acct.ValAddr())
			jailedBefore[vi] = err == nil && sv.Jailed
		}
		// harvest what the chain publishes and what validators confirmed
		batches, err := sk.GetOutgoingTxBatches(ctx)
		if err != nil {
			core.Harnessf("batches: %v", err)
		}
		for _, ib := range batches {
			ext := ib.ToExternal()
			published[hex.EncodeToString(ext.BytesToSign)] = true
			ci, err := w.N.App.EvmKeeper.GetChainInfo(ctx, ext.ChainReferenceId)
			if err != nil {
				continue
			}
			mine := batchDigest(&ext, ci.SmartContractUniqueID)
			if hex.EncodeToString(mine) != hex.EncodeToString(ext.BytesToSign) {
				r.Note("C05", "batch-digest-disagrees", "batch %d: chain publishes %x, compass scheme gives %x", ext.BatchNonce, ext.BytesToSign, mine)
			}
			stage := "pre-estimate"
			if ext.GasEstimate > 0 {
				stage = "post-estimate"
			}
			confirms, err := sk.GetBatchConfirmByNonceAndTokenContract(ctx, ext.BatchNonce, ib.TokenContract)
			if err != nil {
				continue
			}
			for _, c := range confirms {
				key := fmt.Sprintf("%s/%d/%s/%s", ext.TokenContract, ext.BatchNonce, c.EthSigner, stage)
				if _, seen := stash[key]; seen {
					continue
				}
				cp := ext // copy of the published batch
				subj, err := codectypes.NewAnyWithValue(&cp)
				if err != nil {
					core.Harnessf("any: %v", err)
				}
				ev := &c13Evidence{subject: subj, sig: c.Signature, chain: ext.ChainReferenceId, checkpoint: hex.EncodeToString(ext.BytesToSign),
					signer: ethOf(ext.ChainReferenceId, c.EthSigner), genuine: true, stage: stage, key: fmt.Sprintf("%s/%d", ext.TokenContract[:10], ext.BatchNonce)}
				stash[key] = ev
				stashKeys = append(stashKeys, key)
				sort.Strings(stashKeys)
				r.Stats.Probe("confirmations_harvested_" + stage)
				if t.Chance(2, 3) {
					submit(ev, "immediately")
				}
			}
			// positive case (probe only): a Byzantine validator signs a batch the chain never issued
			if t.Chance(1, 25) {
				fake := ext
				fake.BatchNonce += 1000
				vi := t.Intn(len(w.Vals))
				ci2, _ := w.N.App.EvmKeeper.GetChainInfo(ctx, ext.ChainReferenceId)
				dig := batchDigest(&fake, ci2.SmartContractUniqueID)
				sig := w.Vals[vi].Eth[ext.ChainReferenceId].SignEthMessage(dig)
				subj, _ := codectypes.NewAnyWithValue(&fake)
				submit(&c13Evidence{subject: subj, sig: hex.EncodeToString(sig), chain: ext.ChainReferenceId, checkpoint: hex.EncodeToString(dig), signer: vi, genuine: false, stage: "fake"}, "immediately")
				r.Stats.Probe("fake_batch_evidence_sent")
			}
		}
	}
	w.abortNote("C13")
	if r.Stats.Probes["genuine_evidence_post-estimate"] > 0 || r.Stats.Probes["genuine_evidence_pre-estimate"] > 0 {
		r.Stats.Probe("target")
	}
	r.Sample = []string{fmt.Sprintf("%d vals, %d blocks: confirmations harvested pre=%d post=%d, genuine evidence txs executed pre=%d post=%d, replayed later %d, fake-batch evidence sent %d accepted %d, batches executed %d",
		cfg.NVals, r.Blocks, r.Stats.Probes["confirmations_harvested_pre-estimate"], r.Stats.Probes["confirmations_harvested_post-estimate"],
		r.Stats.Probes["genuine_evidence_pre-estimate"], r.Stats.Probes["genuine_evidence_post-estimate"], r.Stats.Probes["evidence_replayed_later"],
		r.Stats.Probes["fake_batch_evidence_sent"], r.Stats.Probes["fake_batch_evidence_accepted"], r.Stats.Probes["batch_executed_observed"])}
	return viols
}
