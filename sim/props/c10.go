package props

import (
	"bytes"
	"crypto/sha256"
	"fmt"
	"math/big"
	"sort"
	"strings"

	"cosmossdk.io/math"
	sdk "github.com/cosmos/cosmos-sdk/types"
	stakingtypes "github.com/cosmos/cosmos-sdk/x/staking/types"
	"github.com/ethereum/go-ethereum/accounts/abi"
	"github.com/ethereum/go-ethereum/common"
	"github.com/palomachain/paloma/v2/app"
	evmtypes "github.com/palomachain/paloma/v2/x/evm/types"
	valsettypes "github.com/palomachain/paloma/v2/x/valset/types"
	"verifsim/core"
	"verifsim/evmsim"
	"verifsim/world"
)

func init() { Register("C10", c10) }

type c10ValState struct {
	bonded bool
	jailed bool
	tokens math.Int
	chains string // sorted chain:address list
	// jailedEarly: jailed by the message-consensus end-blocker (which runs before the snapshot is built in the same block)
	jailedEarly bool
}

func (w *JobWorld) c10Observe() (map[string]c10ValState, []string) {
	ctx := w.Ctx()
	out := map[string]c10ValState{}
	for _, v := range w.Vals {
		sv, err := w.N.App.StakingKeeper.GetValidator(ctx, v.Acct.ValAddr())
		if err != nil {
			continue
		}
		infos, _ := w.N.App.ValsetKeeper.GetValidatorChainInfos(ctx, v.Acct.ValAddr())
		var cs []string
		for _, ci := range infos {
			cs = append(cs, ci.ChainReferenceID+":"+ci.Address)
		}
		sort.Strings(cs)
		out[v.Acct.ValBech32()] = c10ValState{sv.IsBonded(), sv.Jailed, sv.Tokens, strings.Join(cs, ","), false}
	}
	var active []string
	for _, c := range w.Order {
		if w.ChainActive(c) {
			active = append(active, c)
		}
	}
	return out, active
}

func supportsAll(st c10ValState, active []string) bool {
	for _, c := range active {
		if !strings.Contains(","+st.chains, ","+c+":") {
			return false
		}
	}
	return true
}

func snapshotDigest(s *valsettypes.Snapshot) string {
	cp := *s
	cp.Chains = nil
	bz, _ := cp.Marshal()
	h := sha256.Sum256(bz)
	return string(h[:])
}

// exactPowers projects a snapshot onto a chain: floor(2^32 * share / total) for members with an account there.
func exactPowers(s *valsettypes.Snapshot, chain string) (addrs []string, powers []*big.Int, sum *big.Int) {
	type ent struct {
		addr  string
		share *big.Int
	}
	total := new(big.Int)
	var es []ent
	for _, v := range s.Validators {
		total.Add(total, v.ShareCount.BigInt())
	}
	for _, v := range s.Validators {
		for _, ci := range v.ExternalChainInfos {
			if strings.ToLower(ci.ChainType) == "evm" && ci.ChainReferenceID == chain {
				es = append(es, ent{ci.Address, v.ShareCount.BigInt()})
			}
		}
	}
	sum = new(big.Int)
	for _, e := range es {
		p := new(big.Int).Lsh(e.share, 32)
		if total.Sign() > 0 {
			p.Quo(p, total)
		} else {
			p.SetInt64(0)
		}
		addrs = append(addrs, e.addr)
		powers = append(powers, p)
		sum.Add(sum, p)
	}
	return
}

func c10(r *core.Run) []*core.Violation {
	t := r.Tape
	cfg := BridgeCfg{Chains: []ChainSpec{{"eth-main", 1}}}
	if t.Draw(3) == 2 {
		cfg.Chains = append(cfg.Chains, ChainSpec{"bnb-main", 56})
	}
	cfg.NVals = 3 + t.Intn(5)
	cfg.NUsers = 2
	cfg.InitialHeight = []int64{1, 40, 40, 40}[t.Intn(4)]
	cfg.RestartPerMille = 8
	cfg.CrashPerMille = 5
	layout := t.Intn(6)
	for i := 0; i < cfg.NVals; i++ {
		var s math.Int
		switch layout {
		case 0:
			s = math.NewInt(1_000_000_000)
		case 1:
			s = math.NewInt(1_000_000_000 + int64(t.Intn(1000)))
		case 2:
			s = math.NewInt(int64(1_000_000_000) * int64(i+1))
		case 3: // totals not divisible by 3, primes
			s = math.NewInt([]int64{1_000_000_007, 999_999_937, 2_147_483_647, 1_000_003, 7_777_777_777, 3, 1_000_000, 1_299_709}[i%8])
		case 4: // very large stakes (still below 2^63 in total)
			s = math.NewIntFromUint64((uint64(1) << 59) + t.Draw(1<<40))
		default: // constructed so that 2^32*share/total sits just below an integer: total = 2^62
			s = math.NewInt(0) // filled below
		}
		cfg.Stakes = append(cfg.Stakes, s)
	}
	if layout == 5 {
		total := new(big.Int).Lsh(big.NewInt(1), 62)
		rest := new(big.Int).Set(total)
		for i := 0; i < cfg.NVals-1; i++ {
			m := int64(1<<24) + int64(t.Intn(1<<28))
			s := new(big.Int).Sub(new(big.Int).Lsh(big.NewInt(m), 30), big.NewInt(1))
			if new(big.Int).Sub(rest, s).Sign() <= 0 {
				s = big.NewInt(1_000_000)
			}
			cfg.Stakes[i] = math.NewIntFromBigInt(s)
			rest.Sub(rest, s)
		}
		cfg.Stakes[cfg.NVals-1] = math.NewIntFromBigInt(rest)
	}
	if len(cfg.Chains) == 2 && t.Draw(2) == 1 {
		// one validator has an account on the first chain only: it belongs to the snapshot while the second chain is
		// not yet active, but not to the validator set the second chain's bridge is deployed with
		total := math.ZeroInt()
		for _, s := range cfg.Stakes {
			total = total.Add(s)
		}
		vi := 1 + t.Intn(cfg.NVals-1)
		if total.Sub(cfg.Stakes[vi]).MulRaw(4).GT(total.MulRaw(3)) { // the others keep more than 3/4: the deployment can go ahead
			cfg.NoAcctOn = map[int]map[string]bool{vi: {"bnb-main": true}}
			r.Stats.Probe("validator_without_account_on_second_chain")
		}
	}
	r.Profile = fmt.Sprintf("layout-%d", layout)
	var viols []*core.Violation
	bad := func(class string, h int64, facts map[string]string, format string, args ...any) {
		viols = append(viols, vio("C10", class, h, facts, fmt.Sprintf(format, args...)))
	}
	digests := map[uint64]string{}
	chainsOf := map[uint64][]string{}
	var lastID uint64
	var prevState map[string]c10ValState
	var prevActive []string
	checkedMsgs := map[uint64]bool{}
	var w *JobWorld
	checkSnapshots := func(h int64, curState map[string]c10ValState, curActive []string) {
		ctx := w.Ctx()
		cur, err := w.N.App.ValsetKeeper.GetCurrentSnapshot(ctx)
		if err != nil || cur == nil {
			return
		}
		if cur.Id < lastID {
			bad("snapshot-id-decreased", h, nil, "current snapshot id went from %d to %d", lastID, cur.Id)
		}
		for id := uint64(1); id <= cur.Id; id++ {
			s, err := w.N.App.ValsetKeeper.FindSnapshotByID(ctx, id)
			if err != nil {
				bad("snapshot-missing", h, nil, "snapshot %d cannot be loaded: %v", id, err)
				continue
			}
			d := snapshotDigest(s)
			if old, ok := digests[id]; ok {
				if old != d {
					bad("snapshot-mutated", h, nil, "stored snapshot %d changed", id)
					digests[id] = d
				}
				for _, c := range chainsOf[id] {
					found := false
					for _, c2 := range s.Chains {
						if c == c2 {
							found = true
						}
					}
					if !found {
						bad("snapshot-chain-removed", h, nil, "snapshot %d is no longer marked live on %s", id, c)
					}
				}
				chainsOf[id] = append([]string(nil), s.Chains...)
				continue
			}
			digests[id] = d
			chainsOf[id] = append([]string(nil), s.Chains...)
			r.Stats.Probe("snapshots_checked")
			if id != lastID+1 && lastID != 0 {
				bad("snapshot-id-gap", h, nil, "snapshot id %d follows %d", id, lastID)
			}
			sum := math.ZeroInt()
			in := map[string]bool{}
			for _, v := range s.Validators {
				a := v.Address.String()
				in[a] = true
				sum = sum.Add(v.ShareCount)
				ps, okp := prevState[a]
				cs, okc := curState[a]
				if !okp || !okc {
					continue
				}
				if !v.ShareCount.Equal(ps.tokens) && !v.ShareCount.Equal(cs.tokens) {
					bad("snapshot-share", h, nil, "snapshot %d lists %s with share %s; its bonded stake was %s before and %s after the block", id, a, v.ShareCount, ps.tokens, cs.tokens)
				}
				okBefore := ps.bonded && !ps.jailed && supportsAll(ps, prevActive)
				okAfter := cs.bonded && !cs.jailed && supportsAll(cs, curActive)
				if !ps.jailed && cs.jailed && cs.jailedEarly {
					// jailed in this very block, but by an end-blocker that runs before the one that builds the snapshot
					okBefore = false
					r.Stats.Probe("jailed_before_snapshot_in_same_block")
				}
				if !okBefore && !okAfter {
					bad("snapshot-ineligible-member", h, map[string]string{"jailed_same_block": fmt.Sprint(!ps.jailed && cs.jailed)}, "snapshot %d contains %s which was not (bonded, unjailed, with an account on every active chain) before or after the block (jailed before / after: %v / %v)", id, a, ps.jailed, cs.jailed)
				}
			}
			if !sum.Equal(s.TotalShares) {
				bad("snapshot-total", h, nil, "snapshot %d: total %s, sum of shares %s", id, s.TotalShares, sum)
			}
			for _, v := range w.Vals {
				a := v.Acct.ValBech32()
				ps, cs := prevState[a], curState[a]
				okBefore := ps.bonded && !ps.jailed && supportsAll(ps, prevActive)
				okAfter := cs.bonded && !cs.jailed && supportsAll(cs, curActive)
				if okBefore && okAfter && ps == cs && !in[a] {
					bad("snapshot-missing-member", h, nil, "snapshot %d omits %s which was bonded, unjailed and on every active chain throughout the block", id, a)
				}
			}
		}
		lastID = cur.Id
	}
	checkValsetMsg := func(h int64, id uint64, vs *evmtypes.Valset, chain string, what string) {
		ctx := w.Ctx()
		s, err := w.N.App.ValsetKeeper.FindSnapshotByID(ctx, vs.ValsetID)
		if err != nil {
			bad("valset-unknown-snapshot", h, nil, "%s %d refers to snapshot %d which does not exist", what, id, vs.ValsetID)
			return
		}
		addrs, powers, sum := exactPowers(s, chain)
		r.Stats.Probe("valset_messages_checked")
		want := map[string]*big.Int{}
		for i, a := range addrs {
			want[common.HexToAddress(a).Hex()] = powers[i]
		}
		if len(vs.Validators) != len(addrs) {
			bad("valset-members", h, nil, "%s %d for %s lists %d validators, snapshot %d has %d with an account there", what, id, chain, len(vs.Validators), vs.ValsetID, len(addrs))
			return
		}
		gotSum := new(big.Int)
		for i, a := range vs.Validators {
			p, ok := want[common.HexToAddress(a).Hex()]
			if !ok {
				bad("valset-members", h, nil, "%s %d lists %s which has no account on %s in snapshot %d", what, id, a, chain, vs.ValsetID)
				continue
			}
			got := new(big.Int).SetUint64(vs.Powers[i])
			gotSum.Add(gotSum, got)
			if got.Cmp(p) != 0 {
				bad("valset-power-not-floor", h, map[string]string{"delta": new(big.Int).Sub(got, p).String()},
					"%s %d for %s: power of %s is %s, floor(2^32*share/total) is %s (snapshot %d)", what, id, chain, a, got, p, vs.ValsetID)
			}
		}
		two32 := new(big.Int).Lsh(big.NewInt(1), 32)
		if gotSum.Cmp(two32) > 0 {
			bad("valset-power-sum", h, nil, "%s %d: powers sum to %s > 2^32", what, id, gotSum)
		}
		if new(big.Int).Mul(sum, big.NewInt(3)).Cmp(new(big.Int).Mul(two32, big.NewInt(2))) < 0 {
			bad("valset-below-quorum-sent", h, nil, "%s %d for %s was issued although the exact powers sum to %s < 2/3 of 2^32", what, id, chain, sum)
		}
	}
	// the oracle runs after every block, bootstrap included (the bridge deployment message carries the first projection)
	hook := func(jw *JobWorld, br *world.BlockResult) {
		w = jw
		curState, curActive := w.c10Observe()
		if prevState == nil {
			prevState, prevActive = curState, curActive
		}
		// validators without evidence on a contested message that was pruned in this block (age > 300 at a height divisible
		// by 50, with evidence from at least 10% of the shares) are jailed by the message-consensus end-blocker, i.e.
		// before this block's snapshot is built. (The stored jail reason is not used: a snapshot build may clear it.)
		if br.Height%50 == 0 {
			snap, _ := w.N.App.ValsetKeeper.FindSnapshotByID(w.Ctx(), lastID)
			for _, id := range SortedIDs(w.Prev) {
				q := w.Prev[id]
				if _, still := w.Cur[id]; still || br.Height-q.Raw.AddedAtBlockHeight <= 300 || (q.Raw.PublicAccessData == nil && q.Raw.ErrorData == nil) || snap == nil {
					continue
				}
				att := map[string]bool{}
				for _, e := range q.Raw.Evidence {
					att[e.ValAddress.String()] = true
				}
				sum := math.ZeroInt()
				for _, v := range snap.Validators {
					if att[v.Address.String()] {
						sum = sum.Add(v.ShareCount)
					}
				}
				if sum.MulRaw(10).LT(snap.TotalShares) {
					continue
				}
				for _, v := range snap.Validators {
					a := v.Address.String()
					if cs, ok := curState[a]; ok && !att[a] && cs.jailed && !prevState[a].jailed {
						cs.jailedEarly = true
						curState[a] = cs
					}
				}
			}
		}
		for _, a := range core.SortedKeys(curState) {
			if ps, ok := prevState[a]; ok && !ps.jailed && curState[a].jailedEarly {
				r.Stats.Probe("c10_jailed_by_message_pruning")
				if cur, err := w.N.App.ValsetKeeper.GetCurrentSnapshot(w.Ctx()); err == nil && cur != nil && cur.Id > lastID {
					r.Stats.Probe("c10_jailed_by_message_pruning_in_snapshot_block")
				}
			}
		}
		checkSnapshots(br.Height, curState, curActive)
		for _, id := range SortedIDs(w.Cur) {
			q := w.Cur[id]
			if q.Msg == nil || checkedMsgs[id] {
				continue
			}
			switch a := q.Msg.Action.(type) {
			case *evmtypes.Message_UpdateValset:
				checkedMsgs[id] = true
				checkValsetMsg(br.Height, id, a.UpdateValset.Valset, q.Chain, "validator-set update")
			case *evmtypes.Message_UploadSmartContract:
				checkedMsgs[id] = true
				if vs := constructorValset(a.UploadSmartContract.ConstructorInput); vs != nil {
					checkValsetMsg(br.Height, id, vs, q.Chain, "bridge deployment")
				}
			}
		}
		prevState, prevActive = curState, curActive
	}
	w = NewJobWorld(r, cfg, hook)
	if w.Aborted {
		if v := w.abortViolation(); v != nil && strings.Contains(w.Last.PanicStack, "transformSnapshotToCompass") {
			v.Property = "C10"
			v.Class = "snapshot-projection-panicked"
			return []*core.Violation{v}
		}
		w.abortNote("C10")
		return viols
	}
	nBlocks := 90 + t.Intn(110)
	pruneProfile := false
	if layout < 4 && t.Draw(6) == 5 {
		// long run in which most relayers stop attesting: relayed messages stay contested, are pruned after 300 blocks at a
		// snapshot height, and the message-consensus end-blocker jails the silent validators just before the snapshot is built
		total := math.ZeroInt()
		for _, v := range w.Vals {
			total = total.Add(v.Stake)
		}
		sum := math.ZeroInt()
		att := map[int]bool{}
		for i, v := range w.Vals {
			if sum.MulRaw(100).GTE(total.MulRaw(15)) {
				break
			}
			sum = sum.Add(v.Stake)
			att[i] = true
		}
		if sum.MulRaw(100).LT(total.MulRaw(60)) {
			for i, p := range w.Pigeons {
				p.NoAttest = !att[i]
			}
			nBlocks = 370 + t.Intn(60)
			pruneProfile = true
			r.Stats.Probe("profile_prune_jailing")
		}
	}
	for i := 0; i < nBlocks && !w.Aborted && len(viols) == 0; i++ {
		if pruneProfile && i > 300 && t.Chance(1, 2) {
			// keep the stake distribution moving, so that every snapshot height has something new to record
			u := w.Users[t.Intn(len(w.Users))]
			w.Delegate(u, t.Intn(cfg.NVals), int64(200_000_000+t.Intn(600_000_000)))
		}
		// staking churn (the constructed layouts keep their stakes until the bridge deployment message has been issued)
		if (layout < 4 || i > 25) && t.Chance(1, 3) {
			u := w.Users[t.Intn(len(w.Users))]
			vi := t.Intn(cfg.NVals)
			v := w.Vals[vi]
			amt := sdk.NewCoin(app.BondDenom, math.NewInt(int64(1_000_000*(1+t.Intn(200_000)))))
			switch t.Draw(4) {
			case 0:
				w.Submit(v.Acct, stakingtypes.NewMsgUndelegate(v.Acct.Bech32(), v.Acct.ValBech32(), amt))
			case 1:
				w.Submit(u, stakingtypes.NewMsgBeginRedelegate(u.Bech32(), v.Acct.ValBech32(), w.Vals[(vi+1)%cfg.NVals].Acct.ValBech32(), amt))
			default:
				w.Submit(u, stakingtypes.NewMsgDelegate(u.Bech32(), v.Acct.ValBech32(), amt))
			}
			r.Stats.Probe("staking_ops")
		}
		// relayers crash (keep-alives stop -> jailing) and come back, drop or change external accounts
		for _, p := range w.Pigeons {
			if !p.Down && t.Chance(1, 300) {
				p.Crash(w.N.Height + int64(60+t.Intn(100)))
				p.NoKeepAlive = true
				r.Stats.Fault("pigeon_crash")
			}
			if t.Chance(1, 400) {
				// drop the account on one chain for a while (the pigeon re-registers it later)
				var list []*valsettypes.ExternalChainInfo
				for ci, id := range w.Order {
					if ci == 0 && len(w.Order) > 1 {
						continue
					}
					k := p.V.Eth[id]
					list = append(list, &valsettypes.ExternalChainInfo{ChainType: "evm", ChainReferenceID: id, Address: k.Addr.Hex(), Pubkey: k.Addr.Bytes()})
				}
				if len(list) < len(w.Order) {
					w.Submit(p.V.Acct, &valsettypes.MsgAddExternalChainInfoForValidator{Metadata: p.meta(), ChainInfos: list})
					r.Stats.Fault("external_account_dropped")
				}
			}
		}
		w.RandomJobTraffic(2)
		br := w.Step()
		if w.Aborted {
			break
		}
		_ = br
	}
	if w.Aborted {
		if v := w.abortViolation(); v != nil && strings.Contains(w.Last.PanicStack, "transformSnapshotToCompass") {
			v.Property = "C10"
			v.Class = "snapshot-projection-panicked"
			viols = append(viols, v)
		}
	}
	w.abortNote("C10")
	if r.Stats.Probes["snapshots_checked"] > 1 && r.Stats.Probes["valset_messages_checked"] > 0 {
		r.Stats.Probe("target")
	}
	r.Sample = []string{fmt.Sprintf("stake layout %d, %d vals, %d chains, %d blocks: snapshots checked %d, valset messages checked %d, staking ops %d, relayer crashes %d, accounts dropped %d",
		layout, cfg.NVals, len(cfg.Chains), r.Blocks, r.Stats.Probes["snapshots_checked"], r.Stats.Probes["valset_messages_checked"], r.Stats.Probes["staking_ops"], r.Stats.Faults["pigeon_crash"], r.Stats.Faults["external_account_dropped"])}
	return viols
}

// constructorValset decodes the validator set handed to the compass constructor.
func constructorValset(input []byte) *evmtypes.Valset {
	vals, err := evmsim.CompassABI.Constructor.Inputs.Unpack(input)
	if err != nil || len(vals) != 5 {
		return nil
	}
	type vsT = struct {
		Validators []common.Address `json:"validators"`
		Powers     []*big.Int       `json:"powers"`
		ValsetId   *big.Int         `json:"valset_id"`
	}
	v := abi.ConvertType(vals[3], new(vsT)).(*vsT)
	out := &evmtypes.Valset{ValsetID: v.ValsetId.Uint64()}
	for i, a := range v.Validators {
		out.Validators = append(out.Validators, a.Hex())
		out.Powers = append(out.Powers, v.Powers[i].Uint64())
	}
	return out
}

var _ = bytes.Equal
