package props

import (
	"encoding/hex"
	"fmt"
	"math/big"
	"sort"

	"cosmossdk.io/math"
	codectypes "github.com/cosmos/cosmos-sdk/codec/types"
	sdk "github.com/cosmos/cosmos-sdk/types"
	"github.com/ethereum/go-ethereum/common"
	ethtypes "github.com/ethereum/go-ethereum/core/types"
	consensustypes "github.com/palomachain/paloma/v2/x/consensus/types"
	evmtypes "github.com/palomachain/paloma/v2/x/evm/types"
	skywaytypes "github.com/palomachain/paloma/v2/x/skyway/types"
	treasurytypes "github.com/palomachain/paloma/v2/x/treasury/types"
	valsettypes "github.com/palomachain/paloma/v2/x/valset/types"
	"verifsim/evmsim"
	"verifsim/world"
)

// Pigeon is the relayer of one validator: an honest protocol follower built
// only on the chain's public queries and messages. Hooks allow Byzantine
// deviations; Down/Partitioned model crash, stall and partition faults.
type Pigeon struct {
	B *Bridge
	V *Val

	Down                                  bool  // process not running
	DownUntil                             int64 // height at which it comes back (0 = manual)
	EVMPartitioned                        bool  // cannot reach the remote chains
	NoKeepAlive                           bool
	KeepAliveEvery                        int64
	lastKeepAlive                         int64
	Version                               string
	EagerConfirm                          bool  // confirm batches before their estimate is elected
	BatchEstimateLag                      int64 // only estimate a batch this many blocks after it was created (slow estimator)
	ClaimsPerTick                         int
	ClaimDelay                            uint64 // only report events at least this many remote blocks old
	NoSkyway                              bool
	NoSign, NoEstimate, NoRelay, NoAttest bool

	// relayed remembers what this pigeon already relayed (lost on crash).
	relayed map[string]bool

	Hooks PigeonHooks
	// Submitted is the log of accepted txs by kind (for oracles).
	Sent map[string]int
	// Log keeps the evidence / estimate transactions this pigeon got into the mempool, for oracles
	// that must know what was submitted in the very block in which a tally happened.
	Log []SentTx
}

// SentTx is one transaction a pigeon submitted.
type SentTx struct {
	Kind string
	Msg  sdk.Msg
	Tx   []byte
}

// PigeonHooks are optional Byzantine deviations.
type PigeonHooks struct {
	// Estimate overrides the gas estimate (msg id -> value)
	Estimate func(chain string, msgID uint64, honest uint64) uint64
	// BatchEstimate overrides a batch gas estimate
	BatchEstimate func(chain string, nonce uint64, honest uint64) uint64
	// Evidence may replace the proof submitted when attesting (return nil to skip attesting)
	Evidence func(chain string, m *consensustypes.MessageWithSignatures, honest *codectypes.Any) *codectypes.Any
	// Relay may take over relaying of a message; return true if handled
	Relay func(p *Pigeon, chain string, m *consensustypes.MessageWithSignatures) bool
	// Claim may alter a claim before submission (return nil to skip)
	Claim func(chain string, honest sdk.Msg) sdk.Msg
}

func newPigeon(b *Bridge, v *Val) *Pigeon {
	return &Pigeon{B: b, V: v, KeepAliveEvery: 200, Version: "v2.4.0", ClaimsPerTick: 3, relayed: map[string]bool{}, Sent: map[string]int{}}
}

func (p *Pigeon) meta() valsettypes.MsgMetadata { return meta(p.V.Acct) }

func (p *Pigeon) send(kind string, msg sdk.Msg) bool {
	res := p.B.Submit(p.V.Acct, msg)
	if res.Accepted() {
		p.Sent[kind]++
		if kind == "evidence" || kind == "estimate" || kind == "publicaccess" || kind == "errordata" || kind == "claim" {
			p.Log = append(p.Log, SentTx{kind, msg, res.Tx})
			if len(p.Log) > 400 {
				p.Log = p.Log[200:]
			}
		}
		return true
	}
	return false
}

// Crash stops the pigeon; in-memory cursors are lost.
func (p *Pigeon) Crash(until int64) {
	p.Down = true
	p.DownUntil = until
	p.relayed = map[string]bool{}
}

// Tick runs one polling round of the relayer.
func (p *Pigeon) Tick() {
	b := p.B
	h := b.N.Height
	if p.Down {
		if p.DownUntil > 0 && h >= p.DownUntil {
			p.Down = false
		} else {
			return
		}
	}
	ctx := b.Ctx()
	app := b.N.App
	val := p.V.Acct.ValAddr()

	// a jailed / unbonded validator's pigeon can do nothing useful
	sv, err := app.StakingKeeper.GetValidator(ctx, val)
	if err != nil {
		return
	}

	// 1. keep-alive
	if !p.NoKeepAlive && (p.lastKeepAlive == 0 || h-p.lastKeepAlive >= p.KeepAliveEvery) {
		if p.send("keepalive", &valsettypes.MsgKeepAlive{Metadata: p.meta(), PigeonVersion: p.Version}) {
			p.lastKeepAlive = h
		}
	}
	if sv.IsJailed() || !sv.IsBonded() {
		return
	}

	// 2. external accounts
	if !b.BCfg.NoChainVals[p.V.Idx] {
		infos, _ := app.ValsetKeeper.GetValidatorChainInfos(ctx, val)
		have := map[string]bool{}
		for _, ci := range infos {
			have[ci.ChainReferenceID] = true
		}
		missing := false
		for _, id := range b.Order {
			if !have[id] && !b.BCfg.NoAcctOn[p.V.Idx][id] {
				missing = true
			}
		}
		if missing {
			var list []*valsettypes.ExternalChainInfo
			for _, id := range b.Order {
				if b.BCfg.NoAcctOn[p.V.Idx][id] {
					continue
				}
				k := p.V.Eth[id]
				var traits []string
				if b.BCfg.MevVals[p.V.Idx] && (b.BCfg.MevOnlyOn[p.V.Idx] == "" || b.BCfg.MevOnlyOn[p.V.Idx] == id) {
					traits = []string{valsettypes.PIGEON_TRAIT_MEV}
				}
				list = append(list, &valsettypes.ExternalChainInfo{ChainType: "evm", ChainReferenceID: id, Address: k.Addr.Hex(), Pubkey: k.Addr.Bytes(), Traits: traits})
			}
			p.send("chaininfo", &valsettypes.MsgAddExternalChainInfoForValidator{Metadata: p.meta(), ChainInfos: list})
		}
	}

	// 3. relayer fee
	if !b.BCfg.NoFeeVals[p.V.Idx] {
		fees, _ := app.TreasuryKeeper.GetRelayerFees(ctx)
		found := false
		want := 0
		for _, id := range b.Order {
			if !b.BCfg.NoFeeChains[id] {
				want++
			}
		}
		for _, f := range fees {
			if f.ValAddress == val.String() && len(f.Fees) >= want {
				found = true
			}
		}
		if !found {
			mult := "1.1"
			if m, ok := b.BCfg.FeeMultiplier[p.V.Idx]; ok {
				mult = m
			}
			fs := &treasurytypes.RelayerFeeSetting{ValAddress: val.String()}
			for _, id := range b.Order {
				if b.BCfg.NoFeeChains[id] {
					continue
				}
				fs.Fees = append(fs.Fees, treasurytypes.RelayerFeeSetting_FeeSetting{Multiplicator: math.LegacyMustNewDecFromStr(mult), ChainReferenceId: id})
			}
			p.send("relayerfee", &treasurytypes.MsgUpsertRelayerFee{Metadata: p.meta(), FeeSetting: fs})
		}
	}

	// 4. consensus queues
	for _, id := range b.Order {
		if b.BCfg.NoAcctOn[p.V.Idx][id] {
			continue
		}
		p.tickQueue(id)
	}
	// 5. bridge
	if !p.NoSkyway {
		for _, id := range b.Order {
			if b.ChainActive(id) && !b.BCfg.NoAcctOn[p.V.Idx][id] {
				p.tickSkyway(id)
			}
		}
	}
}

// honestEstimate is what this pigeon's RPC node answers for a gas estimate.
func (p *Pigeon) honestEstimate(msgID uint64) uint64 {
	return 100_000 + (msgID%7)*1_000 + uint64(p.V.Idx)*13
}

func (p *Pigeon) tickQueue(chain string) {
	b := p.B
	ctx := b.Ctx()
	ck := b.N.App.ConsensusKeeper
	val := p.V.Acct.ValAddr()
	q := queueName(chain)
	eth := p.V.Eth[chain]

	// sign
	if !p.NoSign {
		res, err := ck.QueuedMessagesForSigning(ctx, &consensustypes.QueryQueuedMessagesForSigningRequest{ValAddress: val, QueueTypeName: q})
		if err == nil && len(res.MessageToSign) > 0 {
			var sigs []*consensustypes.ConsensusMessageSignature
			for _, m := range res.MessageToSign {
				sigs = append(sigs, &consensustypes.ConsensusMessageSignature{Id: m.Id, QueueTypeName: q, Signature: eth.SignEthMessage(m.BytesToSign), SignedByAddress: eth.Addr.Hex()})
				if len(sigs) >= 20 {
					break
				}
			}
			p.send("sign", &consensustypes.MsgAddMessagesSignatures{Metadata: p.meta(), SignedMessages: sigs})
		}
	}
	// estimate
	if !p.NoEstimate && !p.EVMPartitioned {
		res, err := ck.QueuedMessagesForGasEstimation(ctx, &consensustypes.QueryQueuedMessagesForGasEstimationRequest{ValAddress: val, QueueTypeName: q})
		if err == nil && len(res.MessagesToEstimate) > 0 {
			var est []*consensustypes.MsgAddMessageGasEstimates_GasEstimate
			for _, m := range res.MessagesToEstimate {
				if b.holdEstimate(m.Id) {
					continue
				}
				v := p.honestEstimate(m.Id)
				if p.Hooks.Estimate != nil {
					v = p.Hooks.Estimate(chain, m.Id, v)
				}
				est = append(est, &consensustypes.MsgAddMessageGasEstimates_GasEstimate{MsgId: m.Id, QueueTypeName: q, Value: v, EstimatedByAddress: eth.Addr.Hex()})
				if len(est) >= 20 {
					break
				}
			}
			if len(est) > 0 {
				p.send("estimate", &consensustypes.MsgAddMessageGasEstimates{Metadata: p.meta(), Estimates: est})
			}
		}
	}
	// relay
	if !p.NoRelay && !p.EVMPartitioned {
		res, err := ck.QueuedMessagesForRelaying(ctx, &consensustypes.QueryQueuedMessagesForRelayingRequest{ValAddress: val, QueueTypeName: q})
		if err == nil {
			for i := range res.Messages {
				m := &res.Messages[i]
				key := fmt.Sprintf("%s/%d", chain, m.Id)
				if p.relayed[key] {
					continue
				}
				if p.Hooks.Relay != nil && p.Hooks.Relay(p, chain, m) {
					p.relayed[key] = true
					continue
				}
				if p.relay(chain, m) {
					p.relayed[key] = true
				}
				break // one relay per tick
			}
		}
	}
	// attest
	if !p.NoAttest && !p.EVMPartitioned {
		for _, qn := range []string{q,
			consensustypes.Queue("validators-balances", consensustypes.ChainTypeEVM, chain),
			consensustypes.Queue("reference-block", consensustypes.ChainTypeEVM, chain)} {
			res, err := ck.QueuedMessagesForAttesting(ctx, &consensustypes.QueryQueuedMessagesForAttestingRequest{ValAddress: val, QueueTypeName: qn})
			if err != nil {
				continue
			}
			n := 0
			for i := range res.Messages {
				m := &res.Messages[i]
				if b.holdAttest(m.Id) {
					continue
				}
				proof := p.honestEvidence(chain, m)
				if p.Hooks.Evidence != nil {
					proof = p.Hooks.Evidence(chain, m, proof)
				}
				if proof == nil {
					continue
				}
				p.send("evidence", &consensustypes.MsgAddEvidence{Metadata: p.meta(), Proof: proof, MessageID: m.Id, QueueTypeName: qn})
				n++
				if n >= 4 {
					break
				}
			}
		}
	}
}

func mustAny(m interface {
	Reset()
	String() string
	ProtoMessage()
}) *codectypes.Any {
	a, err := codectypes.NewAnyWithValue(m)
	if err != nil {
		panic(err)
	}
	return a
}

// honestEvidence is what an honest relayer reports for a message with delivery or error data.
func (p *Pigeon) honestEvidence(chain string, m *consensustypes.MessageWithSignatures) *codectypes.Any {
	b := p.B
	ch := b.Chains[chain]
	var inner any
	if err := b.N.App.AppCodec().UnpackAny(m.Msg, &inner); err != nil {
		return nil
	}
	switch msg := inner.(type) {
	case *evmtypes.ValidatorBalancesAttestation:
		res := &evmtypes.ValidatorBalancesAttestationRes{BlockHeight: uint64(1000 + (msg.FromBlockTime.Unix()-baseTime.Unix())/12)}
		for _, hx := range msg.HexAddresses {
			bal := ch.Balances[common.HexToAddress(hx)]
			if bal == nil {
				bal = big.NewInt(1_000_000_000_000_000_000)
			}
			res.Balances = append(res.Balances, bal.String())
		}
		return mustAny(res)
	case *evmtypes.ReferenceBlockAttestation:
		hgt := uint64(1000 + (msg.FromBlockTime.Unix()-baseTime.Unix())/12)
		return mustAny(&evmtypes.ReferenceBlockAttestationRes{BlockHeight: hgt, BlockHash: ch.BlockHash(hgt).Hex()})
	}
	if len(m.ErrorData) > 0 && len(m.PublicAccessData) == 0 {
		return mustAny(&evmtypes.SmartContractExecutionErrorProof{ErrorMessage: string(m.ErrorData)})
	}
	if len(m.PublicAccessData) == 0 {
		return nil
	}
	rec, ok := ch.Txs[common.BytesToHash(m.PublicAccessData)]
	if !ok {
		return nil // cannot find the transaction: nothing to attest
	}
	return TxProof(rec)
}

// TxProof serialises a remote transaction and its receipt the way pigeon does.
func TxProof(rec *evmsim.TxRecord) *codectypes.Any {
	txb, err := rec.Tx.MarshalBinary()
	if err != nil {
		panic(err)
	}
	rcb, err := rec.Receipt.MarshalBinary()
	if err != nil {
		panic(err)
	}
	return mustAny(&evmtypes.TxExecutedProof{SerializedTX: txb, SerializedReceipt: rcb})
}

// ---- call data construction (independent of Paloma's encoder) ----

type abiValset struct {
	Validators []common.Address
	Powers     []*big.Int
	ValsetId   *big.Int
}

type abiSig struct {
	V *big.Int
	R *big.Int
	S *big.Int
}

type abiConsensus struct {
	Valset     abiValset
	Signatures []abiSig
}

func toAbiValset(v *evmtypes.Valset) abiValset {
	out := abiValset{ValsetId: bigU(v.ValsetID)}
	for i, a := range v.Validators {
		out.Validators = append(out.Validators, common.HexToAddress(a))
		out.Powers = append(out.Powers, bigU(v.Powers[i]))
	}
	return out
}

// buildConsensus aligns collected signatures with the valset the contract currently holds.
func buildConsensus(v *evmtypes.Valset, sigs []*consensustypes.ValidatorSignature) (abiConsensus, uint64) {
	con := abiConsensus{Valset: toAbiValset(v)}
	by := map[string][]byte{}
	for _, s := range sigs {
		by[common.HexToAddress(s.ExternalAccountAddress).Hex()] = s.Signature
	}
	var power uint64
	for i, a := range con.Valset.Validators {
		sig, ok := by[a.Hex()]
		if !ok || len(sig) != 65 {
			con.Signatures = append(con.Signatures, abiSig{big.NewInt(0), big.NewInt(0), big.NewInt(0)})
			continue
		}
		con.Signatures = append(con.Signatures, abiSig{big.NewInt(int64(sig[64]) + 27), new(big.Int).SetBytes(sig[:32]), new(big.Int).SetBytes(sig[32:64])})
		power += v.Powers[i]
	}
	return con, power
}

type abiCall struct {
	LogicContractAddress common.Address
	Payload              []byte
}

type abiFee struct {
	RelayerFee            *big.Int
	CommunityFee          *big.Int
	SecurityFee           *big.Int
	FeePayerPalomaAddress [32]byte
}

func pad32(b []byte) [32]byte {
	var out [32]byte
	if len(b) > 32 {
		b = b[len(b)-32:]
	}
	copy(out[32-len(b):], b)
	return out
}

func feeArgs(f *evmtypes.Fees, payer []byte) abiFee {
	if f == nil {
		f = &evmtypes.Fees{RelayerFee: 100_000, CommunityFee: 100_000, SecurityFee: 100_000}
	}
	return abiFee{bigU(f.RelayerFee), bigU(f.CommunityFee), bigU(f.SecurityFee), pad32(payer)}
}

// onChainValset is the valset the compass contract currently holds according to Paloma.
func (p *Pigeon) onChainValset(chain string) (*evmtypes.Valset, bool) {
	b := p.B
	ctx := b.Ctx()
	snap, err := b.N.App.ValsetKeeper.GetLatestSnapshotOnChain(ctx, chain)
	if err != nil {
		return nil, false
	}
	res, err := b.N.App.EvmKeeper.GetValsetByID(ctx, &evmtypes.QueryGetValsetByIDRequest{ValsetID: snap.Id, ChainReferenceID: chain})
	if err != nil {
		return nil, false
	}
	return res.Valset, true
}

// CallData builds the compass call for a queued message with the given signatures.
func (p *Pigeon) CallData(chain string, m *consensustypes.MessageWithSignatures, msg *evmtypes.Message, valset *evmtypes.Valset, relayer common.Address) ([]byte, uint64, error) {
	con, power := buildConsensus(valset, m.SignData)
	abi := evmsim.CompassABI
	switch a := msg.Action.(type) {
	case *evmtypes.Message_UpdateValset:
		gas := m.GasEstimate
		data, err := abi.Pack("update_valset", con, toAbiValset(a.UpdateValset.Valset), relayer, bigU(gas))
		return data, power, err
	case *evmtypes.Message_SubmitLogicCall:
		slc := a.SubmitLogicCall
		data, err := abi.Pack("submit_logic_call", con,
			abiCall{common.HexToAddress(slc.HexContractAddress), slc.Payload},
			feeArgs(slc.Fees, slc.SenderAddress), bigU(m.Id), big.NewInt(slc.Deadline), relayer)
		return data, power, err
	case *evmtypes.Message_UploadUserSmartContract:
		u := a.UploadUserSmartContract
		data, err := abi.Pack("deploy_contract", con, common.HexToAddress(u.DeployerAddress), u.Bytecode,
			feeArgs(u.Fees, u.SenderAddress), bigU(m.Id), big.NewInt(u.Deadline), relayer)
		return data, power, err
	case *evmtypes.Message_CompassHandover:
		hd := a.CompassHandover
		calls := []abiCall{}
		for _, f := range hd.ForwardCallArgs {
			calls = append(calls, abiCall{common.HexToAddress(f.HexContractAddress), f.Payload})
		}
		data, err := abi.Pack("compass_update_batch", con, calls, big.NewInt(hd.Deadline), bigU(m.GasEstimate), relayer)
		return data, power, err
	}
	return nil, 0, fmt.Errorf("unsupported action")
}

// relay delivers a queued message to the remote chain and reports the outcome.
func (p *Pigeon) relay(chain string, m *consensustypes.MessageWithSignatures) bool {
	b := p.B
	q := queueName(chain)
	ch := b.Chains[chain]
	eth := p.V.Eth[chain]
	var cm consensustypes.ConsensusMsg
	if err := b.N.App.AppCodec().UnpackAny(m.Msg, &cm); err != nil {
		return false
	}
	msg, ok := cm.(*evmtypes.Message)
	if !ok {
		return false
	}
	var rec *evmsim.TxRecord
	var valsetID uint64
	if up, ok := msg.Action.(*evmtypes.Message_UploadSmartContract); ok {
		data := append(append([]byte(nil), up.UploadSmartContract.Bytecode...), up.UploadSmartContract.ConstructorInput...)
		rec = ch.DeployCompass(eth, data)
		if snap, err := b.N.App.ValsetKeeper.GetCurrentSnapshot(b.Ctx()); err == nil && snap != nil {
			valsetID = snap.Id
		}
	} else {
		valset, ok := p.onChainValset(chain)
		if !ok {
			return false
		}
		compass, _, active := b.CompassOf(chain)
		if !active {
			return false
		}
		data, power, err := p.CallData(chain, m, msg, valset, eth.Addr)
		if err != nil {
			return false
		}
		if power < evmsim.PowerThreshold {
			return false // wait for more signatures
		}
		rec = ch.Call(eth, compass, data)
		valsetID = valset.ValsetID
	}
	b.R.Trace.Event("relay", "%s msg=%d by=%s ok=%v %s", chain, m.Id, p.V.Acct.Name, rec.Receipt.Status == ethtypes.ReceiptStatusSuccessful, rec.Reason)
	if rec.Receipt.Status == ethtypes.ReceiptStatusSuccessful {
		b.R.Stats.Probe("relay_ok")
		return p.send("publicaccess", &consensustypes.MsgSetPublicAccessData{Metadata: p.meta(), MessageID: m.Id, QueueTypeName: q, Data: rec.Tx.Hash().Bytes(), ValsetID: valsetID})
	}
	b.R.Stats.Probe("relay_reverted")
	return p.send("errordata", &consensustypes.MsgSetErrorData{Metadata: p.meta(), MessageID: m.Id, QueueTypeName: q, Data: []byte(rec.Reason)})
}

// ---- skyway ----

func compassIDString(id [32]byte) string { return string(id[:]) }

func (p *Pigeon) honestBatchEstimate(nonce uint64) uint64 {
	return 200_000 + (nonce%5)*1_000 + uint64(p.V.Idx)*7
}

func (p *Pigeon) tickSkyway(chain string) {
	b := p.B
	ctx := b.Ctx()
	sk := b.N.App.SkywayKeeper
	eth := p.V.Eth[chain]
	me := p.V.Acct.Bech32()
	ch := b.Chains[chain]

	// gas estimates for batches
	if !p.NoEstimate && !p.EVMPartitioned {
		res, err := sk.LastPendingBatchForGasEstimation(ctx, &skywaytypes.QueryLastPendingBatchForGasEstimationRequest{Address: p.V.Acct.ValAddr(), ChainReferenceId: chain})
		if err == nil {
			for _, bt := range res.Batch {
				if b.N.Height-int64(bt.PalomaBlockCreated) < p.BatchEstimateLag {
					continue
				}
				v := p.honestBatchEstimate(bt.BatchNonce)
				if p.Hooks.BatchEstimate != nil {
					v = p.Hooks.BatchEstimate(chain, bt.BatchNonce, v)
				}
				p.send("batch-estimate", &skywaytypes.MsgEstimateBatchGas{Metadata: p.meta(), Nonce: bt.BatchNonce, TokenContract: bt.TokenContract, EthSigner: eth.Addr.Hex(), Estimate: v})
			}
		}
	}
	// confirmations
	if !p.NoSign {
		res, err := sk.LastPendingBatchRequestByAddr(ctx, &skywaytypes.QueryLastPendingBatchRequestByAddrRequest{Address: me})
		if err == nil {
			for _, bt := range res.Batch {
				if bt.ChainReferenceId != chain {
					continue
				}
				if bt.GasEstimate == 0 && !p.EagerConfirm {
					continue
				}
				sig := eth.SignEthMessage(bt.BytesToSign)
				p.send("batch-confirm", &skywaytypes.MsgConfirmBatch{Metadata: p.meta(), Nonce: bt.BatchNonce, TokenContract: bt.TokenContract,
					EthSigner: eth.Addr.Hex(), Orchestrator: me, Signature: hex.EncodeToString(sig)})
			}
		}
	}
	// relay batches assigned to me
	if !p.NoRelay && !p.EVMPartitioned {
		res, err := sk.OutgoingTxBatches(ctx, &skywaytypes.QueryOutgoingTxBatchesRequest{ChainReferenceId: chain, Assignee: p.V.Acct.ValBech32()})
		if err == nil {
			for i := range res.Batches {
				bt := &res.Batches[i]
				key := fmt.Sprintf("%s/batch/%s/%d", chain, bt.TokenContract, bt.BatchNonce)
				if p.relayed[key] {
					continue
				}
				if p.relayBatch(chain, bt) {
					p.relayed[key] = true
				}
			}
		}
	}
	// claims for observed events, in order
	if !p.EVMPartitioned {
		compass, _, active := b.CompassOf(chain)
		if !active {
			return
		}
		res, err := sk.LastObservedSkywayNonceByAddr(ctx, &skywaytypes.QueryLastObservedSkywayNonceByAddrRequest{Address: me, ChainReferenceId: chain})
		if err != nil {
			return
		}
		evs := ch.SkywayEventsAfter(compass, res.Nonce)
		sort.SliceStable(evs, func(i, j int) bool { return evs[i].SkywayNonce < evs[j].SkywayNonce })
		n := 0
		for _, e := range evs {
			if n >= p.ClaimsPerTick {
				break
			}
			if e.Block+p.ClaimDelay > ch.Block {
				break // not old enough yet (and claims must go in order)
			}
			claim := p.ClaimFor(chain, e)
			if claim == nil {
				continue
			}
			if p.Hooks.Claim != nil {
				claim = p.Hooks.Claim(chain, claim)
				if claim == nil {
					break
				}
			}
			if !p.send("claim", claim) {
				break
			}
			n++
		}
	}
}

// ClaimFor translates a compass event into the claim an honest relayer submits.
func (p *Pigeon) ClaimFor(chain string, e evmsim.Event) sdk.Msg {
	me := p.V.Acct.Bech32()
	cid := compassIDString(e.CompassID)
	switch e.Kind {
	case "SendToPaloma":
		recv := sdk.AccAddress(e.Receiver[12:]).String()
		return &skywaytypes.MsgSendToPalomaClaim{Metadata: p.meta(), EventNonce: e.EventID, EthBlockHeight: e.Block, TokenContract: e.Token.Hex(),
			Amount: math.NewIntFromBigInt(e.Amount), EthereumSender: e.Sender.Hex(), PalomaReceiver: recv, Orchestrator: me,
			ChainReferenceId: chain, SkywayNonce: e.SkywayNonce, CompassId: cid}
	case "BatchSend":
		return &skywaytypes.MsgBatchSendToRemoteClaim{Metadata: p.meta(), EventNonce: e.EventID, EthBlockHeight: e.Block, BatchNonce: e.BatchID,
			TokenContract: e.Token.Hex(), ChainReferenceId: chain, Orchestrator: me, SkywayNonce: e.SkywayNonce, CompassId: cid}
	case "NodeSale":
		return &skywaytypes.MsgLightNodeSaleClaim{Metadata: p.meta(), EventNonce: e.EventID, EthBlockHeight: e.Block, Orchestrator: me,
			ChainReferenceId: chain, ClientAddress: sdk.AccAddress(e.PalomaAddr[12:]).String(), Amount: math.NewIntFromBigInt(e.GrainAmount),
			SkywayNonce: e.SkywayNonce, SmartContractAddress: e.SaleContract.Hex(), CompassId: cid}
	}
	return nil
}

func (p *Pigeon) relayBatch(chain string, bt *skywaytypes.OutgoingTxBatch) bool {
	b := p.B
	ctx := b.Ctx()
	ch := b.Chains[chain]
	eth := p.V.Eth[chain]
	valset, ok := p.onChainValset(chain)
	if !ok {
		return false
	}
	compass, _, active := b.CompassOf(chain)
	if !active {
		return false
	}
	cres, err := b.N.App.SkywayKeeper.BatchConfirms(ctx, &skywaytypes.QueryBatchConfirmsRequest{Nonce: bt.BatchNonce, ContractAddress: bt.TokenContract})
	if err != nil {
		return false
	}
	var sigs []*consensustypes.ValidatorSignature
	for _, c := range cres.Confirms {
		sb, err := hex.DecodeString(c.Signature)
		if err != nil {
			continue
		}
		sigs = append(sigs, &consensustypes.ValidatorSignature{ExternalAccountAddress: c.EthSigner, Signature: sb})
	}
	con, power := buildConsensus(valset, sigs)
	if power < evmsim.PowerThreshold {
		return false
	}
	type tokArgs struct {
		Receiver []common.Address
		Amount   []*big.Int
	}
	var ta tokArgs
	for _, tx := range bt.Transactions {
		ta.Receiver = append(ta.Receiver, common.HexToAddress(tx.DestAddress))
		ta.Amount = append(ta.Amount, tx.Erc20Token.Amount.BigInt())
	}
	data, err := evmsim.CompassABI.Pack("submit_batch", con, common.HexToAddress(bt.TokenContract), ta, bigU(bt.BatchNonce), bigU(bt.BatchTimeout), eth.Addr, bigU(bt.GasEstimate))
	if err != nil {
		return false
	}
	rec := ch.Call(eth, compass, data)
	okk := rec.Receipt.Status == ethtypes.ReceiptStatusSuccessful
	b.R.Trace.Event("relay-batch", "%s nonce=%d by=%s ok=%v %s", chain, bt.BatchNonce, p.V.Acct.Name, okk, rec.Reason)
	if okk {
		b.R.Stats.Probe("batch_relayed")
	} else {
		b.R.Stats.Probe("batch_relay_reverted")
	}
	return true
}

var _ = world.DefaultGas
