package props

import (
	"encoding/hex"
	"fmt"
	"math/big"
	"sort"

	"cosmossdk.io/math"
	sdk "github.com/cosmos/cosmos-sdk/types"
	"github.com/ethereum/go-ethereum/common"
	skywaytypes "github.com/palomachain/paloma/v2/x/skyway/types"
	"verifsim/core"
	"verifsim/world"
)

// batchSnap is what the simulation remembers of an open bridge batch between block boundaries.
type batchSnap struct {
	bytes    string
	confirms map[string]string // orchestrator -> signature present at the last boundary
}

// batchOracle checks the bridge-batch half of C05 and C06 at a block boundary:
// C06: every stored confirmation verifies against the batch's currently published signing bytes under the key its
// validator registered for the chain; a validator / key appears once; when the signing bytes change (gas estimate
// elected) no confirmation collected before the change survives.
// C05: the published signing bytes equal the compass scheme as implemented independently by the simulator, and
// changing any one delivered value (token, any recipient, any amount, nonce, deadline, relayer, elected estimate,
// deployment id) changes Paloma's own checkpoint.
func (w *SkyWorld) batchOracle(br *world.BlockResult) (c05, c06 []*core.Violation) {
	ctx := w.Ctx()
	sk := w.N.App.SkywayKeeper
	h := br.Height
	if w.batchPrev == nil {
		w.batchPrev = map[string]*batchSnap{}
	}
	batches, err := sk.GetOutgoingTxBatches(ctx)
	if err != nil {
		core.Harnessf("batches: %v", err)
	}
	cur := map[string]*batchSnap{}
	for _, ib := range batches {
		ext := ib.ToExternal()
		key := fmt.Sprintf("%s/%s/%d", ext.ChainReferenceId, ext.TokenContract, ext.BatchNonce)
		ci, err := w.N.App.EvmKeeper.GetChainInfo(ctx, ext.ChainReferenceId)
		if err != nil {
			continue
		}
		snap := &batchSnap{bytes: hex.EncodeToString(ext.BytesToSign), confirms: map[string]string{}}
		cur[key] = snap
		// ---- C05: scheme agreement and field sensitivity
		mine := batchDigest(&ext, ci.SmartContractUniqueID)
		if hex.EncodeToString(mine) != snap.bytes {
			c05 = append(c05, vio("C05", "batch-digest-disagrees", h, nil, fmt.Sprintf("batch %s: the chain publishes %s for signing, the bridge contract's scheme gives %x", key, snap.bytes, mine)))
		}
		if prev, ok := w.batchPrev[key]; !ok || prev.bytes != snap.bytes {
			base, err := ext.GetCheckpoint(string(ci.SmartContractUniqueID))
			if err == nil {
				for _, mu := range batchMutations(&ext) {
					cp := ext
					cp.Transactions = append([]skywaytypes.OutgoingTransferTx(nil), ext.Transactions...)
					id := append([]byte(nil), ci.SmartContractUniqueID...)
					if !mu.apply(&cp, &id) {
						continue
					}
					got, err := cp.GetCheckpoint(string(id))
					w.R.Stats.Probe("c05_batch_field_mutations")
					if err == nil && hex.EncodeToString(got) == hex.EncodeToString(base) {
						c05 = append(c05, vio("C05", "batch-field-not-bound", h, map[string]string{"field": mu.name},
							fmt.Sprintf("batch %s: changing %s leaves the bytes validators sign unchanged (%x)", key, mu.name, base)))
					}
				}
			}
		}
		// ---- C06: stored confirmations
		confirms, err := sk.GetBatchConfirmByNonceAndTokenContract(ctx, ext.BatchNonce, ib.TokenContract)
		if err != nil {
			continue
		}
		seenVal, seenKey := map[string]bool{}, map[string]bool{}
		for _, c := range confirms {
			w.R.Stats.Probe("c06_batch_confirm_checked")
			snap.confirms[c.Orchestrator] = c.Signature
			sig, err := hex.DecodeString(c.Signature)
			who, ok := common.Address{}, false
			if err == nil {
				who, ok = recoverEth(ext.BytesToSign, sig)
			}
			// the key this validator registered for the chain
			var reg common.Address
			known := false
			for _, v := range w.Vals {
				if v.Acct.Bech32() == c.Orchestrator {
					if k, has := v.Eth[ext.ChainReferenceId]; has {
						reg, known = k.Addr, true
					}
				}
			}
			if !ok || !known || who != reg || common.HexToAddress(c.EthSigner) != reg {
				c06 = append(c06, vio("C06", "batch-confirm-invalid", h, nil,
					fmt.Sprintf("batch %s: stored confirmation of %s (claims key %s) does not verify against the currently published signing bytes %s under the key that validator registered (%s); recovered %s ok=%v",
						key, c.Orchestrator, c.EthSigner, snap.bytes, reg.Hex(), who.Hex(), ok)))
			}
			if seenVal[c.Orchestrator] || seenKey[c.EthSigner] {
				c06 = append(c06, vio("C06", "batch-confirm-duplicate", h, nil, fmt.Sprintf("batch %s: validator %s / key %s appears more than once among the stored confirmations", key, c.Orchestrator, c.EthSigner)))
			}
			seenVal[c.Orchestrator], seenKey[c.EthSigner] = true, true
		}
		if prev, ok := w.batchPrev[key]; ok && prev.bytes != snap.bytes {
			w.R.Stats.Probe("c06_batch_signing_bytes_changed")
			for _, o := range core.SortedKeys(prev.confirms) {
				if s, still := snap.confirms[o]; still && s == prev.confirms[o] {
					c06 = append(c06, vio("C06", "batch-confirm-carried-over", h, nil,
						fmt.Sprintf("batch %s: signing bytes changed from %s to %s but the confirmation of %s collected before the change is still stored", key, prev.bytes, snap.bytes, o)))
				}
			}
		}
	}
	w.batchPrev = cur
	return c05, c06
}

type batchMutation struct {
	name  string
	apply func(b *skywaytypes.OutgoingTxBatch, compassID *[]byte) bool
}

func flipHexAddr(s string) string {
	a := common.HexToAddress(s)
	a[7] ^= 0x10
	return a.Hex()
}

// batchMutations lists one-value edits of everything the bridge contract is handed when a batch is delivered.
func batchMutations(b *skywaytypes.OutgoingTxBatch) []batchMutation {
	out := []batchMutation{
		{"the batch token", func(b *skywaytypes.OutgoingTxBatch, _ *[]byte) bool {
			b.TokenContract = flipHexAddr(b.TokenContract)
			return true
		}},
		{"the batch nonce", func(b *skywaytypes.OutgoingTxBatch, _ *[]byte) bool { b.BatchNonce++; return true }},
		{"the deadline", func(b *skywaytypes.OutgoingTxBatch, _ *[]byte) bool { b.BatchTimeout++; return true }},
		{"the relayer address", func(b *skywaytypes.OutgoingTxBatch, _ *[]byte) bool {
			if len(b.AssigneeRemoteAddress) == 0 {
				return false
			}
			a := append([]byte(nil), b.AssigneeRemoteAddress...)
			a[len(a)-1] ^= 1
			b.AssigneeRemoteAddress = a
			return true
		}},
		{"the elected gas estimate", func(b *skywaytypes.OutgoingTxBatch, _ *[]byte) bool {
			if b.GasEstimate == 0 {
				return false // "not elected yet" is encoded as the contract default (DESIGN §4 C05)
			}
			b.GasEstimate++
			return true
		}},
		{"the bridge deployment id", func(_ *skywaytypes.OutgoingTxBatch, id *[]byte) bool {
			if len(*id) == 0 {
				return false
			}
			(*id)[0] ^= 1
			return true
		}},
	}
	for i := range b.Transactions {
		i := i
		out = append(out, batchMutation{fmt.Sprintf("recipient %d", i), func(b *skywaytypes.OutgoingTxBatch, _ *[]byte) bool {
			tx := b.Transactions[i]
			tx.DestAddress = flipHexAddr(tx.DestAddress)
			b.Transactions[i] = tx
			return true
		}})
		out = append(out, batchMutation{fmt.Sprintf("amount %d", i), func(b *skywaytypes.OutgoingTxBatch, _ *[]byte) bool {
			tx := b.Transactions[i]
			tx.Erc20Token.Amount = tx.Erc20Token.Amount.Add(math.OneInt())
			b.Transactions[i] = tx
			return true
		}})
	}
	if len(b.Transactions) >= 2 {
		out = append(out, batchMutation{"the order of two transfers", func(b *skywaytypes.OutgoingTxBatch, _ *[]byte) bool {
			if b.Transactions[0].DestAddress == b.Transactions[1].DestAddress && b.Transactions[0].Erc20Token.Amount.Equal(b.Transactions[1].Erc20Token.Amount) {
				return false
			}
			b.Transactions[0], b.Transactions[1] = b.Transactions[1], b.Transactions[0]
			return true
		}})
	}
	return out
}

// skyBatchScenario drives bridge batches (creation, slow and fast estimators, eager and late confirmers, Byzantine
// confirmations, cancellations, timeouts, executions) and evaluates the batch half of C05 / C06.
func skyBatchScenario(r *core.Run, prop string) []*core.Violation {
	t := r.Tape
	r.Profile = "bridge-batches"
	cfg := BridgeCfg{Chains: []ChainSpec{{"eth-main", 1}}}
	if t.Draw(3) == 2 {
		cfg.Chains = append(cfg.Chains, ChainSpec{"bnb-main", 56})
	}
	cfg.NVals = 4 + t.Intn(3)
	cfg.NUsers = 3
	cfg.InitialHeight = 40
	cfg.JumpPerMille = 10
	w := NewSkyWorld(r, cfg, 1+t.Intn(2), prop)
	if w.Aborted {
		w.abortNote(prop)
		return nil
	}
	lag := int64([]int{0, 2, 6, 12}[t.Intn(4)])
	for _, p := range w.Pigeons {
		p.EagerConfirm = t.Draw(3) != 0
		p.BatchEstimateLag = lag
	}
	byz := w.Vals[len(w.Vals)-1]
	var viols []*core.Violation
	nBlocks := 110 + t.Intn(100)
	for i := 0; i < nBlocks && !w.Aborted && len(viols) == 0; i++ {
		w.RandomClientOps()
		// a Byzantine validator confirms open batches with signatures that must not be stored: by a key that is not the
		// registered one, over other bytes, or in another validator's name
		if t.Chance(1, 5) {
			if batches, err := w.N.App.SkywayKeeper.GetOutgoingTxBatches(w.Ctx()); err == nil && len(batches) > 0 {
				ext := batches[t.Intn(len(batches))].ToExternal()
				own := byz.Eth[ext.ChainReferenceId]
				other := w.Vals[0].Eth[ext.ChainReferenceId]
				stray := world.NewEthKey(r.Seed, fmt.Sprintf("stray-%d", i))
				var msg *skywaytypes.MsgConfirmBatch
				switch t.Intn(4) {
				case 0: // signature by a stray key, claiming the registered one
					msg = &skywaytypes.MsgConfirmBatch{EthSigner: own.Addr.Hex(), Signature: hex.EncodeToString(stray.SignEthMessage(ext.BytesToSign))}
				case 1: // own key over different bytes
					other32 := append([]byte(nil), ext.BytesToSign...)
					other32[3] ^= 0x40
					msg = &skywaytypes.MsgConfirmBatch{EthSigner: own.Addr.Hex(), Signature: hex.EncodeToString(own.SignEthMessage(other32))}
				case 2: // stray key honestly declared (not registered)
					msg = &skywaytypes.MsgConfirmBatch{EthSigner: stray.Addr.Hex(), Signature: hex.EncodeToString(stray.SignEthMessage(ext.BytesToSign))}
				default: // claims another validator's key
					msg = &skywaytypes.MsgConfirmBatch{EthSigner: other.Addr.Hex(), Signature: hex.EncodeToString(own.SignEthMessage(ext.BytesToSign))}
				}
				msg.Metadata, msg.Orchestrator, msg.Nonce, msg.TokenContract = meta(byz.Acct), byz.Acct.Bech32(), ext.BatchNonce, ext.TokenContract
				if w.Submit(byz.Acct, msg).Accepted() {
					r.Stats.Fault("byzantine_batch_confirm")
				}
			}
		}
		w.Gov.Tick()
		br := w.Step()
		if w.Aborted {
			break
		}
		for _, v := range w.AfterBlock(br) {
			r.Note("C01", v.Class, "%s", v.Detail)
		}
		c05, c06 := w.batchOracle(br)
		for _, v := range append(c05, c06...) {
			if v.Property == prop {
				viols = append(viols, v)
			} else {
				r.Note(v.Property, v.Class, "%s", v.Detail)
			}
		}
	}
	w.abortNote(prop)
	target := map[string]string{"C05": "c05_batch_field_mutations", "C06": "c06_batch_signing_bytes_changed"}[prop]
	if r.Stats.Probes[target] > 0 {
		r.Stats.Probe("target")
	}
	r.Sample = []string{fmt.Sprintf("bridge-batches: %d vals, %d blocks, estimator lag %d: batch confirmations checked %d, signing-bytes changes %d, batch field edits %d, byzantine confirmations sent %d, batches executed %d",
		cfg.NVals, r.Blocks, lag, r.Stats.Probes["c06_batch_confirm_checked"], r.Stats.Probes["c06_batch_signing_bytes_changed"], r.Stats.Probes["c05_batch_field_mutations"], r.Stats.Faults["byzantine_batch_confirm"], r.Stats.Probes["batch_executed_observed"])}
	return viols
}

var _ = sort.Strings
var _ = big.NewInt
var _ sdk.Msg
