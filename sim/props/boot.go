package props

import (
	"fmt"

	"verifsim/core"
)

func init() { Register("BOOT", bootDebug) }

// bootDebug is a harness self-test: bring one or two chains to active state.
func bootDebug(r *core.Run) []*core.Violation {
	t := r.Tape
	cfg := BridgeCfg{Chains: []ChainSpec{{"eth-main", 1}}}
	if t.Draw(2) == 1 {
		cfg.Chains = append(cfg.Chains, ChainSpec{"bnb-main", 56})
	}
	cfg.NVals = 3 + t.Intn(3)
	cfg.NUsers = 1
	cfg.InitialHeight = []int64{1, 40}[t.Intn(2)]
	b := NewBridge(r, cfg)
	ok := b.Bootstrap(140)
	for _, rec := range b.N.Logger.Drain() {
		if rec.Level == "error" && len(r.Sample) < 40 {
			r.Sample = append(r.Sample, rec.Msg+" | "+rec.KV)
		}
	}
	r.Sample = append(r.Sample, fmt.Sprintf("bootstrapped=%v height=%d aborted=%v %s", ok, b.N.Height, b.Aborted, b.AbortWhy))
	if ok {
		r.Stats.Probe("target")
	}
	for _, p := range b.Pigeons {
		r.Sample = append(r.Sample, fmt.Sprintf("%s sent=%v", p.V.Acct.Name, p.Sent))
	}
	return nil
}
