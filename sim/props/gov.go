package props

import (
	"cosmossdk.io/math"
	sdk "github.com/cosmos/cosmos-sdk/types"
	authtypes "github.com/cosmos/cosmos-sdk/x/auth/types"
	govtypes "github.com/cosmos/cosmos-sdk/x/gov/types"
	govv1 "github.com/cosmos/cosmos-sdk/x/gov/types/v1"
	govv1beta1 "github.com/cosmos/cosmos-sdk/x/gov/types/v1beta1"
	"github.com/palomachain/paloma/v2/app"
)

// GovAuthority is the governance module account (the authority of privileged messages).
func GovAuthority() string { return authtypes.NewModuleAddress(govtypes.ModuleName).String() }

// Proposal is a governance action in flight, driven by Gov.Tick.
type Proposal struct {
	Name   string
	Msgs   []sdk.Msg
	ID     uint64
	State  string // new | submitted | voting | passed | rejected | failed
	Voted  map[int]bool
	OnDone func(passed bool)
	tx     []byte
}

// Gov is the governance actor: it submits proposals from validator 0 and makes every validator vote yes.
type Gov struct {
	S     *Sim
	Queue []*Proposal
}

func NewGov(s *Sim) *Gov { return &Gov{S: s} }

// Legacy wraps a v1beta1 content into the message gov v1 executes.
func Legacy(c govv1beta1.Content) sdk.Msg {
	m, err := govv1.NewLegacyContent(c, GovAuthority())
	if err != nil {
		panic(err)
	}
	return m
}

func (g *Gov) Propose(name string, onDone func(bool), msgs ...sdk.Msg) *Proposal {
	p := &Proposal{Name: name, Msgs: msgs, State: "new", Voted: map[int]bool{}, OnDone: onDone}
	g.Queue = append(g.Queue, p)
	return p
}

// Busy reports whether a proposal is still in flight.
func (g *Gov) Busy() bool {
	for _, p := range g.Queue {
		if p.State == "new" || p.State == "submitted" || p.State == "voting" {
			return true
		}
	}
	return false
}

// Tick advances all proposals; call once per block before producing the block.
func (g *Gov) Tick() {
	s := g.S
	ctx := s.Ctx()
	for _, p := range g.Queue {
		switch p.State {
		case "new":
			prop := s.Vals[0].Acct
			msg, err := govv1.NewMsgSubmitProposal(p.Msgs, sdk.NewCoins(sdk.NewCoin(app.BondDenom, math.NewInt(10_000_000))), prop.Bech32(), "", p.Name, p.Name, false)
			if err != nil {
				p.State = "failed"
				continue
			}
			res := s.Submit(prop, msg)
			if res.Accepted() {
				p.State = "submitted"
				p.tx = res.Tx
			} else {
				p.State = "failed"
				s.R.Trace.Event("gov-submit-rejected", "%s", p.Name)
				if p.OnDone != nil {
					p.OnDone(false)
				}
			}
		case "submitted":
			// find our proposal id: the highest proposal with our title
			var id uint64
			_ = s.N.App.GovKeeper.Proposals.Walk(ctx, nil, func(key uint64, v govv1.Proposal) (bool, error) {
				if v.Title == p.Name && key > id {
					id = key
				}
				return false, nil
			})
			if id == 0 {
				if r := s.Result(p.tx); r != nil && r.Code != 0 {
					p.State = "failed"
					s.R.Trace.Event("gov-submit-failed", "%s: %s", p.Name, r.Log)
					if p.OnDone != nil {
						p.OnDone(false)
					}
				}
				continue
			}
			p.ID = id
			p.State = "voting"
			fallthrough
		case "voting":
			prop, err := s.N.App.GovKeeper.Proposals.Get(ctx, p.ID)
			if err != nil {
				continue
			}
			switch prop.Status {
			case govv1.StatusPassed:
				p.State = "passed"
				s.R.Trace.Event("gov-passed", "%s", p.Name)
				s.R.Stats.Probe("gov_passed")
				if p.OnDone != nil {
					p.OnDone(true)
				}
				continue
			case govv1.StatusRejected, govv1.StatusFailed:
				p.State = "rejected"
				s.R.Trace.Event("gov-rejected", "%s status=%s reason=%s", p.Name, prop.Status, prop.FailedReason)
				s.R.Stats.Probe("gov_rejected")
				if p.OnDone != nil {
					p.OnDone(false)
				}
				continue
			}
			for i, v := range s.Vals {
				if p.Voted[i] {
					continue
				}
				res := s.Submit(v.Acct, govv1.NewMsgVote(v.Acct.Addr, p.ID, govv1.OptionYes, ""))
				if res.Accepted() {
					p.Voted[i] = true
				}
			}
		}
	}
}
