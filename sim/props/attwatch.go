package props

import (
	"bytes"
	"fmt"
	"reflect"
	"sort"

	"cosmossdk.io/math"
	sdk "github.com/cosmos/cosmos-sdk/types"
	skywaytypes "github.com/palomachain/paloma/v2/x/skyway/types"
	"verifsim/core"
	"verifsim/world"
)

// AttRec is the watcher's view of one attestation at a boundary.
type AttRec struct {
	Chain    string
	Key      string
	Nonce    uint64
	Observed bool
	Votes    []string
	Claim    skywaytypes.EthereumClaim
}

// vote is an accepted (code 0) claim transaction.
type voteRec struct {
	val   string // operator address
	chain string
	nonce uint64
	hash  string
	claim skywaytypes.EthereumClaim
}

// AttWatcher follows every attestation of every chain and every accepted vote.
type AttWatcher struct {
	W     *SkyWorld
	Prev  map[string]*AttRec
	Cur   map[string]*AttRec
	Votes []voteRec
	// model cursor per chain: last observed nonce in the current epoch, epoch counter
	Last   map[string]uint64
	Epoch  map[string]int
	seenTx map[string]bool
}

func NewAttWatcher(w *SkyWorld) *AttWatcher {
	a := &AttWatcher{W: w, Prev: map[string]*AttRec{}, Cur: map[string]*AttRec{}, Last: map[string]uint64{}, Epoch: map[string]int{}, seenTx: map[string]bool{}}
	a.scan()
	for _, c := range w.Order {
		n, _ := w.N.App.SkywayKeeper.GetLastObservedSkywayNonce(w.Ctx(), c)
		a.Last[c] = n
	}
	return a
}

func (a *AttWatcher) scan() {
	w := a.W
	ctx := w.Ctx()
	sk := w.N.App.SkywayKeeper
	a.Prev = a.Cur
	a.Cur = map[string]*AttRec{}
	for _, chain := range w.Order {
		_ = sk.IterateAttestations(ctx, chain, false, func(key []byte, att skywaytypes.Attestation) bool {
			claim, err := sk.UnpackAttestationClaim(&att)
			if err != nil {
				return false
			}
			k := chain + "/" + string(key)
			a.Cur[k] = &AttRec{Chain: chain, Key: k, Nonce: claim.GetSkywayNonce(), Observed: att.Observed, Votes: append([]string(nil), att.Votes...), Claim: claim}
			return false
		})
	}
}

// collectVotes digests the claim transactions of the block.
func (a *AttWatcher) collectVotes(br *world.BlockResult) {
	order := map[string]int{}
	for i, tx := range br.Txs {
		order[string(tx)] = i
	}
	for _, p := range a.W.Pigeons {
		for _, s := range p.Log {
			if s.Kind != "claim" {
				continue
			}
			i, ok := order[string(s.Tx)]
			if !ok || a.seenTx[string(s.Tx)] {
				continue
			}
			a.seenTx[string(s.Tx)] = true
			if br.Results[i].Code != 0 {
				continue
			}
			c := s.Msg.(skywaytypes.EthereumClaim)
			h, _ := c.ClaimHash()
			a.Votes = append(a.Votes, voteRec{p.V.Acct.ValBech32(), c.GetChainReferenceId(), c.GetSkywayNonce(), string(h), c})
			a.W.R.Stats.Probe("votes_accepted")
		}
	}
}

func distinct(ss []string) []string {
	m := map[string]bool{}
	var out []string
	for _, s := range ss {
		if !m[s] {
			m[s] = true
			out = append(out, s)
		}
	}
	sort.Strings(out)
	return out
}

// OracleC02 checks every attestation that became observed in this block.
func (a *AttWatcher) OracleC02(br *world.BlockResult) []*core.Violation {
	var out []*core.Violation
	w := a.W
	ctx := w.Ctx()
	h := br.Height
	total, err := w.N.App.StakingKeeper.GetLastTotalPower(ctx)
	if err != nil {
		core.Harnessf("total power: %v", err)
	}
	keys := core.SortedKeys(a.Cur)
	newlyByChain := map[string][]*AttRec{}
	for _, k := range keys {
		cur := a.Cur[k]
		prev := a.Prev[k]
		if !cur.Observed || (prev != nil && prev.Observed) {
			continue
		}
		newlyByChain[cur.Chain] = append(newlyByChain[cur.Chain], cur)
		w.R.Stats.Probe("c02_observations_checked")
		voters := distinct(cur.Votes)
		if len(voters) != len(cur.Votes) {
			w.R.Stats.Probe("c02_duplicate_votes_in_list")
		}
		p := math.ZeroInt()
		for _, v := range voters {
			va, err := sdk.ValAddressFromBech32(v)
			if err != nil {
				continue
			}
			pw, err := w.N.App.StakingKeeper.GetLastValidatorPower(ctx, va)
			if err == nil {
				p = p.AddRaw(pw)
			}
		}
		if !p.MulRaw(100).GT(total.MulRaw(66)) {
			out = append(out, vio("C02", "observed-without-supermajority", h, map[string]string{"duplicate_votes": fmt.Sprint(len(voters) != len(cur.Votes))},
				fmt.Sprintf("claim at nonce %d on %s took effect with distinct voters %v holding %s of %s bonded power (needs more than 66%%); raw vote list has %d entries", cur.Nonce, cur.Chain, voters, p, total, len(cur.Votes))))
		}
		hash, _ := cur.Claim.ClaimHash()
		for _, v := range voters {
			found := false
			for _, vr := range a.Votes {
				if vr.val == v && vr.chain == cur.Chain && vr.nonce == cur.Nonce && vr.hash == string(hash) {
					found = true
					break
				}
			}
			if !found {
				out = append(out, vio("C02", "vote-without-transaction", h, nil, fmt.Sprintf("attestation nonce %d on %s lists %s as voter but no accepted claim transaction of that validator for this claim exists", cur.Nonce, cur.Chain, v)))
			}
		}
	}
	for _, chain := range w.Order {
		nl := newlyByChain[chain]
		sort.Slice(nl, func(i, j int) bool { return nl[i].Nonce < nl[j].Nonce })
		for _, at := range nl {
			if at.Nonce != a.Last[chain]+1 {
				// what the store holds for the skipped nonce(s)
				var skipped []string
				for _, k := range keys {
					c := a.Cur[k]
					if c.Chain == chain && c.Nonce+1 > a.Last[chain] && c.Nonce < at.Nonce+2 {
						was := "absent before"
						if p := a.Prev[k]; p != nil {
							was = fmt.Sprintf("before: observed=%v votes=%d", p.Observed, len(p.Votes))
						}
						skipped = append(skipped, fmt.Sprintf("nonce %d %T observed=%v votes=%d (%s)", c.Nonce, c.Claim, c.Observed, len(c.Votes), was))
					}
				}
				cursor, _ := w.N.App.SkywayKeeper.GetLastObservedSkywayNonce(ctx, chain)
				out = append(out, vio("C02", "nonce-order", h, nil, fmt.Sprintf("claim at nonce %d took effect on %s while the last observed nonce of this epoch is %d; chain cursor now %d; attestations in between: %v", at.Nonce, chain, a.Last[chain], cursor, skipped)))
			}
			a.Last[chain] = at.Nonce
		}
		// the chain's own cursor must be where the observed claims put it: a cursor that moved on without a claim
		// being marked observed has consumed an event nonce whose effect was never applied
		if cursor, err := w.N.App.SkywayKeeper.GetLastObservedSkywayNonce(ctx, chain); err == nil && cursor != a.Last[chain] && len(out) == 0 {
			out = append(out, vio("C02", "cursor-moved-without-observation", h, nil, fmt.Sprintf("the oracle cursor of %s is %d but the last claim that took effect in this epoch has nonce %d: an event nonce was consumed without its claim being observed or applied", chain, cursor, a.Last[chain])))
			a.Last[chain] = cursor
		}
	}
	return out
}

// Reset tells the watcher that the oracle cursor of a chain was reset (governance / activation).
func (a *AttWatcher) Reset(chain string) {
	n, _ := a.W.N.App.SkywayKeeper.GetLastObservedSkywayNonce(a.W.Ctx(), chain)
	a.Last[chain] = n
	a.Epoch[chain]++
}

// claimDiff lists effect-bearing fields in which two claims differ (voter identity, tx metadata and the unused event id excluded).
func claimDiff(x, y skywaytypes.EthereumClaim) []string {
	vx, vy := reflect.ValueOf(x).Elem(), reflect.ValueOf(y).Elem()
	if vx.Type() != vy.Type() {
		return []string{"type"}
	}
	var out []string
	for i := 0; i < vx.NumField(); i++ {
		name := vx.Type().Field(i).Name
		if name == "Orchestrator" || name == "Metadata" || name == "EventNonce" {
			continue
		}
		fx, fy := vx.Field(i).Interface(), vy.Field(i).Interface()
		if ix, ok := fx.(math.Int); ok {
			if !ix.Equal(fy.(math.Int)) {
				out = append(out, name)
			}
			continue
		}
		if !reflect.DeepEqual(fx, fy) {
			out = append(out, name)
		}
	}
	return out
}

// OracleC11: no vote is pooled onto an attestation whose stored claim differs from what the voter submitted.
func (a *AttWatcher) OracleC11(br *world.BlockResult) []*core.Violation {
	var out []*core.Violation
	reported := map[string]bool{}
	for _, k := range core.SortedKeys(a.Cur) {
		cur := a.Cur[k]
		prevVotes := 0
		if p := a.Prev[k]; p != nil {
			prevVotes = len(p.Votes)
		}
		if len(cur.Votes) == prevVotes {
			continue
		}
		for _, v := range distinct(cur.Votes) {
			// what v submitted for this event nonce: a validator has one accepted claim per nonce (its latest, if the cursor
			// was reset in between). The oracle does not rely on the chain's claim hash to pair votes with attestations -
			// that hash is the mechanism under test. A validator listed on several attestations of the nonce (possible
			// after a reset) is compared on the one whose stored claim equals its submission, if there is one.
			var sub skywaytypes.EthereumClaim
			for _, vr := range a.Votes {
				if vr.val == v && vr.chain == cur.Chain && vr.nonce == cur.Nonce {
					sub = vr.claim
				}
			}
			if sub != nil && len(claimDiff(cur.Claim, sub)) > 0 {
				// an earlier submission of v for this nonce that does equal the stored claim explains the vote
				for _, vr := range a.Votes {
					if vr.val == v && vr.chain == cur.Chain && vr.nonce == cur.Nonce && len(claimDiff(cur.Claim, vr.claim)) == 0 {
						sub = vr.claim
					}
				}
			}
			if sub == nil {
				continue
			}
			a.W.R.Stats.Probe("c11_pooled_votes_checked")
			if d := claimDiff(cur.Claim, sub); len(d) > 0 && !reported[k+v] {
				reported[k+v] = true
				out = append(out, vio("C11", "vote-pooled-onto-different-claim", br.Height, map[string]string{"fields": fmt.Sprint(d), "claim": fmt.Sprintf("%T", sub)},
					fmt.Sprintf("the vote of %s for nonce %d on %s was counted towards a stored claim that differs from what it submitted in %v (stored %v, submitted %v)", v, cur.Nonce, cur.Chain, d, cur.Claim, sub)))
			}
		}
	}
	return out
}

var _ = bytes.Equal
