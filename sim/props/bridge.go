package props

import (
	"encoding/json"
	"fmt"
	"math/big"
	"time"

	"cosmossdk.io/math"
	"github.com/cosmos/cosmos-sdk/codec"
	sdk "github.com/cosmos/cosmos-sdk/types"
	"github.com/ethereum/go-ethereum/common"
	"github.com/ethereum/go-ethereum/common/hexutil"
	consensustypes "github.com/palomachain/paloma/v2/x/consensus/types"
	evmtypes "github.com/palomachain/paloma/v2/x/evm/types"
	treasurytypes "github.com/palomachain/paloma/v2/x/treasury/types"
	"verifsim/core"
	"verifsim/evmsim"
	"verifsim/world"
)

// ChainSpec describes one remote EVM chain known to Paloma from genesis.
type ChainSpec struct {
	RefID   string
	ChainID uint64
}

// BridgeCfg configures a simulation with remote chains, relayers and the bridge.
type BridgeCfg struct {
	SimCfg
	Chains []ChainSpec
	// MevVals marks validators (by index) whose pigeon advertises the MEV trait.
	MevVals map[int]bool
	// MevOnlyOn restricts a validator's MEV trait to one chain (it relays through an MEV service there and nowhere else).
	MevOnlyOn map[int]string
	// NoFeeVals: validators that never register a relayer fee.
	NoFeeVals map[int]bool
	// NoFeeChains: chains for which no validator registers a relayer fee (the chain never gets a relayer).
	NoFeeChains map[string]bool
	// EstimateHoldPerMille: chance that the relayers' RPC nodes cannot simulate a particular message for a while,
	// so that its gas estimate is elected later than that of younger messages.
	EstimateHoldPerMille int
	// AttestHoldPerMille: chance that the relayers' RPC nodes do not see the delivery transaction of a particular message
	// for a while (reorg depth, lagging node), so that it stays delivered-but-unattested for several blocks.
	AttestHoldPerMille int
	// NoAcctOn: validator index -> chains on which it never registers an account (it has accounts on the others).
	NoAcctOn map[int]map[string]bool
	// NoChainVals: validators that never register external accounts.
	NoChainVals  map[int]bool
	CommunityFee string
	SecurityFee  string
	// FeeMultiplier per validator index (default "1.1")
	FeeMultiplier map[int]string
	// EvmSkewSeconds: remote clock = paloma block time + skew
	EvmSkewSeconds int64
	// NContracts: number of echo contracts (wasm principals) to deploy after the bootstrap
	NContracts int
}

// Bridge is a Sim plus remote chains and one pigeon per validator.
type Bridge struct {
	estHold map[uint64]int64
	attHold map[uint64]int64
	*Sim
	BCfg    BridgeCfg
	Chains  map[string]*evmsim.Chain
	Order   []string // chain ref ids in order
	Pigeons []*Pigeon
	FeeMgr  common.Address
	// Seen tx digests of every executed remote call per chain, for oracles.
	bootstrapped bool
}

func queueName(chain string) string {
	return consensustypes.Queue(evmtypes.ConsensusTurnstoneMessage, consensustypes.ChainTypeEVM, chain)
}

func NewBridge(r *core.Run, cfg BridgeCfg) *Bridge {
	b := &Bridge{BCfg: cfg, Chains: map[string]*evmsim.Chain{}}
	b.FeeMgr = common.HexToAddress("0x00000000000000000000000000000000000fee01")
	if cfg.CommunityFee == "" {
		cfg.CommunityFee = "0.01"
	}
	if cfg.SecurityFee == "" {
		cfg.SecurityFee = "0.01"
	}
	for _, cs := range cfg.Chains {
		b.Chains[cs.RefID] = evmsim.NewChain(cs.RefID, cs.ChainID, 1000)
		b.Order = append(b.Order, cs.RefID)
	}
	chains := cfg.Chains
	mut := func(cdc codec.Codec, gs map[string]json.RawMessage) {
		var eg evmtypes.GenesisState
		cdc.MustUnmarshalJSON(gs[evmtypes.ModuleName], &eg)
		for _, cs := range chains {
			ch := b.Chains[cs.RefID]
			eg.Chains = append(eg.Chains, &evmtypes.GenesisChainInfo{
				ChainReferenceID:  cs.RefID,
				ChainID:           cs.ChainID,
				BlockHeight:       ch.Block,
				BlockHashAtHeight: ch.BlockHash(ch.Block).Hex(),
				MinOnChainBalance: "0",
				FeeManagerAddr:    b.FeeMgr.Hex(),
			})
		}
		eg.SmartContract = &evmtypes.GenesisSmartContract{AbiJson: evmsim.CompassABIJSON, BytecodeHex: hexutil.Encode(evmsim.CompassBytecode)}
		gs[evmtypes.ModuleName] = cdc.MustMarshalJSON(&eg)
		var tg treasurytypes.GenesisState
		cdc.MustUnmarshalJSON(gs[treasurytypes.ModuleName], &tg)
		tg.TreasuryFees = treasurytypes.Fees{CommunityFundFee: cfg.CommunityFee, SecurityFee: cfg.SecurityFee}
		gs[treasurytypes.ModuleName] = cdc.MustMarshalJSON(&tg)
	}
	cfg.SimCfg.Mutate = append([]func(codec.Codec, map[string]json.RawMessage){mut}, cfg.SimCfg.Mutate...)
	b.BCfg = cfg
	b.Sim = NewSim(r, cfg.SimCfg)
	for _, v := range b.Vals {
		for _, cs := range cfg.Chains {
			v.Eth[cs.RefID] = world.NewEthKey(r.Seed, fmt.Sprintf("%s/%s", v.Acct.Name, cs.RefID))
		}
		b.Pigeons = append(b.Pigeons, newPigeon(b, v))
	}
	b.Sim.OnRestart = func() {
		for _, p := range b.Pigeons {
			b.N.SyncAccount(p.V.Acct)
		}
		for _, u := range b.Users {
			b.N.SyncAccount(u)
		}
	}
	return b
}

// Step lets every pigeon act (in tape-chosen order), then produces a block and mines the remote chains.
func (b *Bridge) Step() *world.BlockResult {
	if b.Aborted {
		return nil
	}
	order := make([]int, len(b.Pigeons))
	for i := range order {
		order[i] = i
	}
	// seeded permutation
	for i := len(order) - 1; i > 0; i-- {
		j := b.T.Intn(i + 1)
		order[i], order[j] = order[j], order[i]
	}
	for _, i := range order {
		b.Pigeons[i].Tick()
	}
	br := b.Block()
	for _, id := range b.Order {
		b.Chains[id].Mine(b.Now.Unix() + b.BCfg.EvmSkewSeconds)
	}
	return br
}

// holdEstimate decides once per message (for all relayers alike) whether its estimation is held back, and until when.
func (b *Bridge) holdEstimate(id uint64) bool {
	if b.BCfg.EstimateHoldPerMille == 0 {
		return false
	}
	if b.estHold == nil {
		b.estHold = map[uint64]int64{}
	}
	until, seen := b.estHold[id]
	if !seen {
		until = 0
		if b.T.Chance(uint64(b.BCfg.EstimateHoldPerMille), 1000) {
			until = b.N.Height + int64(2+b.T.Intn(12))
			b.R.Stats.Fault("estimate_held_back")
		}
		b.estHold[id] = until
	}
	return b.N.Height < until
}

// holdAttest decides once per message (for all relayers alike) whether attesting is held back, and until when.
func (b *Bridge) holdAttest(id uint64) bool {
	if b.BCfg.AttestHoldPerMille == 0 {
		return false
	}
	if b.attHold == nil {
		b.attHold = map[uint64]int64{}
	}
	until, seen := b.attHold[id]
	if !seen {
		until = 0
		if b.T.Chance(uint64(b.BCfg.AttestHoldPerMille), 1000) {
			until = b.N.Height + int64(2+b.T.Intn(10))
			b.R.Stats.Fault("attestation_held_back")
		}
		b.attHold[id] = until
	}
	return b.N.Height < until
}

// ChainActive reports whether Paloma considers the chain active.
func (b *Bridge) ChainActive(ref string) bool {
	ci, err := b.N.App.EvmKeeper.GetChainInfo(b.Ctx(), ref)
	return err == nil && ci.IsActive()
}

// Bootstrap runs blocks until every chain is active (compass deployed and attested).
func (b *Bridge) Bootstrap(maxBlocks int) bool {
	for i := 0; i < maxBlocks && !b.Aborted; i++ {
		all := true
		for _, id := range b.Order {
			if !b.BCfg.NoFeeChains[id] && !b.ChainActive(id) {
				all = false
			}
		}
		if all {
			b.bootstrapped = true
			b.R.Trace.Event("bootstrapped", "h=%d", b.N.Height)
			return true
		}
		b.Step()
	}
	return false
}

// CompassOf returns the compass contract Paloma currently considers active on a chain.
func (b *Bridge) CompassOf(ref string) (common.Address, []byte, bool) {
	ci, err := b.N.App.EvmKeeper.GetChainInfo(b.Ctx(), ref)
	if err != nil || !ci.IsActive() {
		return common.Address{}, nil, false
	}
	return common.HexToAddress(ci.SmartContractAddr), ci.SmartContractUniqueID, true
}

func bigU(u uint64) *big.Int { return new(big.Int).SetUint64(u) }

func (b *Bridge) since() time.Duration { return b.Now.Sub(b.Genesis) }

func coins(denom string, amt int64) sdk.Coins {
	return sdk.NewCoins(sdk.NewCoin(denom, math.NewInt(amt)))
}
