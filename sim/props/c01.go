package props

import (
	"context"
	"errors"
	"fmt"
	"runtime"
	"strings"
	"time"

	skywaykeeper "github.com/palomachain/paloma/v2/x/skyway/keeper"
	"verifsim/core"
)

func init() { Register("C01", c01) }

var faultMethods = []string{
	"evm.GetChainInfo", "evm.PickValidatorForMessage", "evm.GetEthAddressByValidator",
	"bank.SendCoinsFromAccountToModule", "bank.SendCoinsFromModuleToAccount", "bank.BurnCoins", "bank.MintCoins",
	"bank.SendCoinsFromModuleToModule",
}

// faultPlan arms the verif hook for one block.
type faultPlan struct {
	armed  bool
	method string
	k      int  // fail the k-th call (1-based) of method in the block
	outage bool // fail every call of method from the k-th on (the collaborator is down for the whole block)
	panic  bool
	sites  []string // skyway functions in which a failure was injected
	count  map[string]int
	fired  bool
	// Calls logs every intercepted call of the armed block
	Calls []string
}

func (f *faultPlan) hook(_ context.Context, method string) error {
	if !f.armed {
		return nil
	}
	f.count[method]++
	f.Calls = append(f.Calls, method)
	if method == f.method && (f.count[method] == f.k && !f.fired || f.outage && f.count[method] > f.k) {
		f.fired = true
		f.sites = append(f.sites, callerInSkyway())
		if f.panic {
			panic(fmt.Sprintf("verif: injected panic in %s (call %d)", method, f.k))
		}
		return errors.New("verif: injected failure in " + method)
	}
	return nil
}

// callerInSkyway names the skyway keeper function that made the intercepted call (reach probe; deterministic).
func callerInSkyway() string {
	pcs := make([]uintptr, 24)
	n := runtime.Callers(3, pcs)
	frames := runtime.CallersFrames(pcs[:n])
	for {
		fr, more := frames.Next()
		if strings.Contains(fr.Function, "x/skyway/keeper") && !strings.Contains(fr.File, "verif_hook") {
			name := fr.Function[strings.LastIndex(fr.Function, "/")+1:]
			return strings.TrimPrefix(name, "keeper.")
		}
		if !more {
			return "?"
		}
	}
}

func c01(r *core.Run) []*core.Violation {
	t := r.Tape
	// swarm configuration
	nChains := 1 + t.Intn(2)
	cfg := BridgeCfg{}
	cfg.Chains = []ChainSpec{{"eth-main", 1}}
	if nChains == 2 {
		cfg.Chains = append(cfg.Chains, ChainSpec{"bnb-main", 56})
		if t.Draw(4) == 3 {
			// a chain that governance added but for which no relayer has set a fee yet
			cfg.NoFeeChains = map[string]bool{"bnb-main": true}
		}
	}
	cfg.NVals = 3 + t.Intn(3)
	cfg.NUsers = 2 + t.Intn(3)
	cfg.InitialHeight = 40
	faulty := t.Draw(2) == 1 // fault-free and fault-injecting profiles are separate
	if faulty {
		r.Profile = "faulty"
		cfg.RestartPerMille = 15
		cfg.CrashPerMille = 10
		cfg.JumpPerMille = 25
	} else {
		r.Profile = "fault-free"
		cfg.JumpPerMille = 10 // batch timeouts are part of normal life
	}
	fp := &faultPlan{count: map[string]int{}}
	skywaykeeper.VerifFault = fp.hook
	defer func() { skywaykeeper.VerifFault = nil }()

	w := NewSkyWorld(r, cfg, 1+t.Intn(3), "C01")
	if w.Aborted {
		w.abortNote("C01")
		return nil
	}
	lag := int64([]int{0, 0, 2, 6}[t.Intn(4)])
	for _, p := range w.Pigeons {
		p.EagerConfirm = t.Draw(2) == 1
		p.BatchEstimateLag = lag
	}
	var viols []*core.Violation
	nBlocks := 70 + t.Intn(90)
	for i := 0; i < nBlocks && !w.Aborted; i++ {
		w.RandomClientOps()
		w.RandomGovernance()
		// collaborator fault for this block
		fp.armed = false
		// faults are biased towards blocks with in-flight state: open batches (relay, timeout, cancel) and batch-build heights
		den := uint64(6)
		if w.OpenBatches > 0 || (w.N.Height+1)%50 == 0 {
			den = 3
		}
		if faulty && t.Chance(1, den) {
			fp.method = faultMethods[t.Intn(len(faultMethods))]
			fp.k = 1 + t.Intn(3)
			if t.Draw(4) == 3 {
				fp.k = 1 + t.Intn(12)
			}
			fp.outage = t.Draw(3) == 2
			if w.OpenBatches > 0 && t.Draw(3) == 1 {
				// let the collaborator fail in the very block in which open batches time out (cancellation under fault)
				w.Sim.ForceJump = time.Duration(11+t.Intn(30)) * time.Minute
				if t.Draw(3) != 0 {
					// the cancellation's own collaborator calls come late in the block: take the collaborator down for all of it
					fp.method, fp.k, fp.outage = []string{"evm.GetChainInfo", "bank.SendCoinsFromModuleToAccount"}[t.Intn(2)], 1, true
				}
			}
			fp.sites = nil
			fp.panic = t.Draw(8) == 7
			fp.count = map[string]int{}
			fp.fired = false
			fp.Calls = nil
			fp.armed = true
		}
		w.Gov.Tick()
		w.FaultThisBlock = fp.armed
		br := w.Step()
		if fp.armed && fp.fired {
			mode := "error"
			if fp.panic {
				mode = "panic"
			}
			r.Stats.Fault("collaborator_" + mode)
			r.Stats.Fault("fault@" + fp.method)
			if fp.outage {
				r.Stats.Fault("collaborator_outage_block")
			}
			for _, site := range fp.sites {
				r.Stats.Probe("fault_in:" + site)
			}
			r.Trace.Event("fault", "%s call=%d %s h=%d", fp.method, fp.k, mode, w.N.Height)
		}
		fp.armed = false
		if w.Aborted {
			break
		}
		w.FaultMethod = ""
		if fp.fired {
			w.FaultMethod = fp.method
		}
		vs := w.AfterBlock(br)
		fp.fired = false
		if len(vs) > 0 {
			for _, v := range vs {
				if v.Facts == nil {
					v.Facts = map[string]string{}
				}
				if w.FaultMethod != "" {
					v.Facts["injected"] = w.FaultMethod
				} else {
					v.Facts["injected"] = "none"
				}
			}
			viols = append(viols, vs...)
			break
		}
	}
	w.abortNote("C01")
	if r.Stats.Probes["send_ok"] > 0 && (r.Stats.Probes["blocks_with_open_batch"] > 0) {
		r.Stats.Probe("target")
	}
	r.Sample = []string{fmt.Sprintf("%s: %d chains, %d vals, %d users, %d tokens, %d blocks; sends ok=%d failed=%d, cancels ok=%d, deposits applied=%d, batches executed=%d, transfers burned=%d",
		r.Profile, nChains, cfg.NVals, cfg.NUsers, len(w.Tokens), r.Blocks, r.Stats.Probes["send_ok"], r.Stats.Probes["send_failed"], r.Stats.Probes["cancel_ok"],
		r.Stats.Probes["deposit_applied"], r.Stats.Probes["batch_executed_observed"], r.Stats.Probes["transfer_burned"])}
	return viols
}

func sortedTransferIDs(m map[uint64]*Transfer) []uint64 {
	ids := make([]uint64, 0, len(m))
	for id := range m {
		ids = append(ids, id)
	}
	for i := 1; i < len(ids); i++ {
		for j := i; j > 0 && ids[j] < ids[j-1]; j-- {
			ids[j], ids[j-1] = ids[j-1], ids[j]
		}
	}
	return ids
}
