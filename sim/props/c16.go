package props

import (
	"fmt"
	"sort"
	"strings"

	"cosmossdk.io/math"
	sdk "github.com/cosmos/cosmos-sdk/types"
	banktypes "github.com/cosmos/cosmos-sdk/x/bank/types"
	"github.com/palomachain/paloma/v2/app"
	tftypes "github.com/palomachain/paloma/v2/x/tokenfactory/types"
	"verifsim/core"
	"verifsim/world"
)

func init() { Register("C16", c16) }

type tfDenom struct {
	admin  string
	supply math.Int
	bal    map[string]math.Int // bech32 -> amount
}

type tfOp struct {
	kind string
	// principal is the address in whose name the operation is made: the signing account, or a contract that the
	// account executes (via = that contract)
	principal string
	pname     string
	via       *Contract
	mintTo    string
	actor     *world.Account
	denom     string
	amount    math.Int
	target    string // new admin / receiver
	tx        []byte
	meta      banktypes.Metadata
}

const c16Native2 = "uother"

func c16(r *core.Run) []*core.Violation {
	t := r.Tape
	nUsers := 3 + t.Intn(3)
	cfg := SimCfg{NVals: 1, NUsers: nUsers,
		UserCoins:       sdk.NewCoins(sdk.NewCoin(app.BondDenom, math.NewInt(10_000_000_000)), sdk.NewCoin(c16Native2, math.NewInt(1_000_000))),
		RestartPerMille: 40, CrashPerMille: 40}
	s := NewSim(r, cfg)
	s.OnRestart = func() {
		for _, u := range s.Users {
			s.N.SyncAccount(u)
		}
	}
	// contract principals: echo contracts that act through the token-factory binding (whoever executes them decides what)
	var contracts []*Contract
	if t.Draw(2) == 1 {
		rp, cp := s.Cfg.RestartPerMille, s.Cfg.CrashPerMille
		s.Cfg.RestartPerMille, s.Cfg.CrashPerMille = 0, 0
		s.Block() // (a node that was just restarted checks transactions against height 0 until its next commit)
		s.N.SyncAccount(s.Users[0])
		contracts = DeployEcho(s, s.Users[0], 1+t.Intn(2), s.Block)
		// the denomination creation fee is charged to the creator: give the contracts funds of their own
		for _, c := range contracts {
			s.Submit(s.Users[0], &banktypes.MsgSend{FromAddress: s.Users[0].Bech32(), ToAddress: c.Addr.String(), Amount: sdk.NewCoins(sdk.NewCoin(app.BondDenom, math.NewInt(500_000_000)))})
		}
		s.Block()
		s.Cfg.RestartPerMille, s.Cfg.CrashPerMille = rp, cp
	}
	holders := []string{}
	for _, u := range s.Users {
		holders = append(holders, u.Bech32())
	}
	for _, c := range contracts {
		holders = append(holders, c.Addr.String())
	}
	model := map[string]*tfDenom{}
	var viols []*core.Violation
	native2Supply := s.N.App.BankKeeper.GetSupply(s.Ctx(), c16Native2).Amount
	subs := []string{"gold", "silver", "a", "x/y", "Gold", "ugrain", c16Native2, strings.Repeat("z", 44), strings.Repeat("z", 45), "", "bad denom", "factory"}
	nBlocks := 8 + t.Intn(30)
	allDenoms := func() []string {
		ds := core.SortedKeys(model)
		return ds
	}
	pickDenom := func(actor *world.Account) string {
		ds := allDenoms()
		switch k := t.Draw(10); {
		case k < 6 && len(ds) > 0:
			return ds[t.Intn(len(ds))]
		case k == 6:
			return app.BondDenom
		case k == 7:
			return c16Native2
		case k == 8:
			// a denom in someone's namespace that was never created
			return "factory/" + s.Users[t.Intn(nUsers)].Bech32() + "/" + "ghost"
		default:
			return []string{"factory/x/y", "factory/" + actor.Bech32(), "ibc/ABCDEF", "gold"}[t.Intn(4)]
		}
	}
	byAddr := map[string]*world.Account{}
	for _, u := range s.Users {
		byAddr[u.Bech32()] = u
	}
	// most operations are issued by the party entitled to them, so that the
	// privileged paths really execute; the rest are hostile
	entitled := func(op *tfOp) {
		if d, ok := model[op.denom]; ok && t.Draw(4) != 0 {
			if a, ok := byAddr[d.admin]; ok {
				op.actor = a
			}
		}
	}
	for b := 0; b < nBlocks && !s.Aborted; b++ {
		nOps := t.Intn(7)
		var ops []*tfOp
		for i := 0; i < nOps; i++ {
			actor := s.Users[t.Intn(nUsers)]
			op := &tfOp{actor: actor}
			var msg sdk.Msg
			switch k := t.Draw(12); {
			case k < 3:
				op.kind = "create"
				sub := subs[t.Intn(len(subs))]
				op.denom = "factory/" + actor.Bech32() + "/" + sub
				msg = &tftypes.MsgCreateDenom{Metadata: meta(actor), Subdenom: sub}
			case k < 6:
				op.kind = "mint"
				op.denom = pickDenom(actor)
				op.amount = math.NewIntFromUint64(1 + t.Uint64()%1_000_000_000_000)
				entitled(op)
				actor = op.actor
				msg = &tftypes.MsgMint{Metadata: meta(actor), Amount: sdk.Coin{Denom: op.denom, Amount: op.amount}}
			case k < 8:
				op.kind = "burn"
				op.denom = pickDenom(actor)
				op.amount = math.NewIntFromUint64(1 + t.Uint64()%1_000_000)
				entitled(op)
				actor = op.actor
				if d, ok := model[op.denom]; ok && t.Draw(3) != 0 {
					if bal, ok := d.bal[actor.Bech32()]; ok && bal.IsPositive() {
						if t.Draw(2) == 0 {
							op.amount = bal // burn everything
						} else {
							op.amount = math.NewIntFromUint64(1 + t.Uint64()%bal.Uint64())
						}
					}
				}
				msg = &tftypes.MsgBurn{Metadata: meta(actor), Amount: sdk.Coin{Denom: op.denom, Amount: op.amount}}
			case k < 10:
				op.kind = "change-admin"
				op.denom = pickDenom(actor)
				op.target = s.Users[t.Intn(nUsers)].Bech32()
				if t.Draw(8) == 7 {
					op.target = ""
				}
				entitled(op)
				actor = op.actor
				msg = &tftypes.MsgChangeAdmin{Metadata: meta(actor), Denom: op.denom, NewAdmin: op.target}
			case k < 11:
				op.kind = "set-metadata"
				op.denom = pickDenom(actor)
				op.meta = banktypes.Metadata{Base: op.denom, Display: op.denom, Name: "n", Symbol: "S",
					DenomUnits: []*banktypes.DenomUnit{{Denom: op.denom, Exponent: 0}}}
				entitled(op)
				actor = op.actor
				msg = &tftypes.MsgSetDenomMetadata{Metadata: meta(actor), DenomMetadata: op.meta}
			default:
				op.kind = "send"
				ds := allDenoms()
				if len(ds) == 0 {
					continue
				}
				op.denom = ds[t.Intn(len(ds))]
				op.target = s.Users[t.Intn(nUsers)].Bech32()
				op.amount = math.NewIntFromUint64(1 + t.Uint64()%1000)
				msg = &banktypes.MsgSend{FromAddress: actor.Bech32(), ToAddress: op.target, Amount: sdk.NewCoins(sdk.NewCoin(op.denom, op.amount))}
			}
			op.principal, op.pname = actor.Bech32(), actor.Name
			if len(contracts) > 0 && op.kind != "send" && t.Draw(3) == 1 {
				// the same operation, made by a contract (executed by the drawn account)
				c := contracts[t.Intn(len(contracts))]
				if d, ok := model[op.denom]; ok && t.Draw(4) != 0 {
					for _, cc := range contracts {
						if cc.Addr.String() == d.admin {
							c = cc // mostly the entitled contract
						}
					}
				}
				op.via, op.principal, op.pname = c, c.Addr.String(), "contract "+c.Addr.String()[:14]
				var custom map[string]any
				switch op.kind {
				case "create":
					sub := strings.TrimPrefix(op.denom, "factory/"+actor.Bech32()+"/")
					op.denom = "factory/" + c.Addr.String() + "/" + sub
					custom = map[string]any{"create_denom": map[string]any{"subdenom": sub}}
				case "mint":
					op.mintTo = holders[t.Intn(len(holders))]
					custom = map[string]any{"mint_tokens": map[string]any{"denom": op.denom, "amount": op.amount.String(), "mint_to_address": op.mintTo}}
				case "burn":
					custom = map[string]any{"burn_tokens": map[string]any{"denom": op.denom, "amount": op.amount.String(), "burn_from_address": ""}}
				case "change-admin":
					if op.target == "" {
						op.target = holders[t.Intn(len(holders))] // the binding cannot renounce
					}
					custom = map[string]any{"change_admin": map[string]any{"denom": op.denom, "new_admin_address": op.target}}
				case "set-metadata":
					custom = map[string]any{"set_metadata": map[string]any{"denom": op.denom, "metadata": map[string]any{"description": "d", "base": op.denom, "display": op.denom, "name": "n", "symbol": "S",
						"denom_units": []any{map[string]any{"denom": op.denom, "exponent": 0, "aliases": []string{}}}}}}
				}
				res := c.ExecuteVia(s, actor, map[string]any{"token_factory_msg": custom})
				if !res.Accepted() {
					continue
				}
				op.tx = res.Tx
				ops = append(ops, op)
				r.Stats.Probe("contract_ops_sent")
				continue
			}
			res := s.Submit(actor, msg)
			if !res.Accepted() {
				r.Trace.Event("rejected", "%s %s by %s", op.kind, op.denom, actor.Name)
				continue
			}
			op.tx = res.Tx
			ops = append(ops, op)
			if t.Chance(1, 10) {
				// transport duplicates the tx: second copy must bounce (sequence)
				if _, err := s.N.CheckTx(res.Tx); err == nil {
					r.Stats.Fault("tx_duplicate")
				}
			}
		}
		br := s.Block()
		if s.Aborted {
			break
		}
		// apply results in block order
		order := map[string]int{}
		for i, tx := range br.Txs {
			order[string(tx)] = i
		}
		sort.SliceStable(ops, func(i, j int) bool { return order[string(ops[i].tx)] < order[string(ops[j].tx)] })
		for _, op := range ops {
			res := s.Result(op.tx)
			if res == nil {
				// not included (stays in mempool or dropped after restart); treat as lost, resync
				r.Trace.Event("not-included", "%s", op.kind)
				continue
			}
			ok := res.Code == 0
			r.Trace.Event(op.kind, "%s %s ok=%v", op.pname, op.denom, ok)
			if ok && op.via != nil {
				r.Stats.Probe("contract_ops_ok")
			}

			d := model[op.denom]
			isAdmin := d != nil && d.admin == op.principal
			fail := func(class, detail string) {
				viols = append(viols, vio("C16", class, br.Height, map[string]string{"op": op.kind}, detail))
			}
			switch op.kind {
			case "create":
				if ok {
					if d != nil {
						fail("recreate-existing", fmt.Sprintf("%s created %s again", op.pname, op.denom))
					}
					model[op.denom] = &tfDenom{admin: op.principal, supply: math.ZeroInt(), bal: map[string]math.Int{}}
					r.Stats.Probe("denoms_created")
				}
			case "mint":
				if ok {
					r.Stats.Probe("mints_ok")
					if d == nil {
						fail("mint-non-factory", fmt.Sprintf("%s minted %s of %s which was not created through the factory", op.pname, op.amount, op.denom))
						continue
					}
					if !isAdmin {
						fail("mint-by-non-admin", fmt.Sprintf("%s minted %s but admin is %s", op.pname, op.denom, d.admin))
					}
					d.supply = d.supply.Add(op.amount)
					to := op.principal
					if op.via != nil {
						to = op.mintTo // the binding mints to the contract and forwards to the named receiver
					}
					d.bal[to] = getInt(d.bal, to).Add(op.amount)
				} else if isAdmin {
					r.Stats.Probe("admin_mint_failed")
				}
			case "burn":
				if ok {
					r.Stats.Probe("burns_ok")
					if d == nil {
						fail("burn-non-factory", fmt.Sprintf("%s burned %s of %s which was not created through the factory", op.pname, op.amount, op.denom))
						continue
					}
					if !isAdmin {
						fail("burn-by-non-admin", fmt.Sprintf("%s burned %s but admin is %s", op.pname, op.denom, d.admin))
					}
					d.supply = d.supply.Sub(op.amount)
					d.bal[op.principal] = getInt(d.bal, op.principal).Sub(op.amount)
				}
			case "change-admin":
				if ok {
					r.Stats.Probe("admin_changes")
					if d == nil {
						fail("admin-non-factory", fmt.Sprintf("%s changed admin of unknown denom %s", op.pname, op.denom))
						continue
					}
					if !isAdmin {
						fail("change-admin-by-non-admin", fmt.Sprintf("%s changed admin of %s but admin is %s", op.pname, op.denom, d.admin))
					}
					d.admin = op.target
				}
			case "set-metadata":
				if ok {
					if d == nil {
						fail("metadata-non-factory", fmt.Sprintf("%s set metadata of unknown denom %s", op.pname, op.denom))
						continue
					}
					if !isAdmin {
						fail("metadata-by-non-admin", fmt.Sprintf("%s set metadata of %s but admin is %s", op.pname, op.denom, d.admin))
					}
					r.Stats.Probe("metadata_set")
				}
			case "send":
				if ok && d != nil {
					d.bal[op.actor.Bech32()] = getInt(d.bal, op.actor.Bech32()).Sub(op.amount)
					d.bal[op.target] = getInt(d.bal, op.target).Add(op.amount)
				}
			}
		}
		// state oracle
		ctx := s.Ctx()
		for _, denom := range allDenoms() {
			d := model[denom]
			got := s.N.App.BankKeeper.GetSupply(ctx, denom).Amount
			if !got.Equal(d.supply) {
				viols = append(viols, vio("C16", "supply-mismatch", br.Height, nil, fmt.Sprintf("%s: bank supply %s, mints-burns %s", denom, got, d.supply)))
			}
			am, err := s.N.App.TokenFactoryKeeper.GetAuthorityMetadata(ctx, denom)
			if err != nil || am.Admin != d.admin {
				viols = append(viols, vio("C16", "admin-mismatch", br.Height, nil, fmt.Sprintf("%s: stored admin %q (err %v), model %q", denom, am.Admin, err, d.admin)))
			}
			sum := math.ZeroInt()
			for _, hld := range holders {
				acc, _ := sdk.AccAddressFromBech32(hld)
				bal := s.N.App.BankKeeper.GetBalance(ctx, acc, denom).Amount
				want := getInt(d.bal, hld)
				if !bal.Equal(want) {
					viols = append(viols, vio("C16", "balance-mismatch", br.Height, nil, fmt.Sprintf("%s: %s holds %s, model %s", denom, hld, bal, want)))
				}
				sum = sum.Add(bal)
			}
			if !sum.Equal(got) {
				viols = append(viols, vio("C16", "supply-outside-users", br.Height, nil, fmt.Sprintf("%s: user balances sum %s, supply %s", denom, sum, got)))
			}
			cr, _, err := tftypes.DeconstructDenom(denom)
			if err != nil {
				viols = append(viols, vio("C16", "malformed-denom-created", br.Height, nil, fmt.Sprintf("%s does not deconstruct: %v", denom, err)))
			} else if !strings.HasPrefix(denom, "factory/"+cr+"/") {
				viols = append(viols, vio("C16", "namespace", br.Height, nil, fmt.Sprintf("%s outside creator namespace %s", denom, cr)))
			}
		}
		if got := s.N.App.BankKeeper.GetSupply(ctx, c16Native2).Amount; !got.Equal(native2Supply) {
			viols = append(viols, vio("C16", "native-supply-changed", br.Height, nil, fmt.Sprintf("%s supply %s -> %s", c16Native2, native2Supply, got)))
		}
		if len(viols) > 0 {
			break
		}
	}
	s.abortNote("C16")
	if r.Stats.Probes["mints_ok"] > 0 && r.Stats.Probes["denoms_created"] > 0 {
		r.Stats.Probe("target")
	}
	r.Sample = []string{fmt.Sprintf("%d users, %d blocks, %d denoms, %d mints, %d burns, %d admin changes", nUsers, r.Blocks, len(model),
		r.Stats.Probes["mints_ok"], r.Stats.Probes["burns_ok"], r.Stats.Probes["admin_changes"])}
	return viols
}

func getInt(m map[string]math.Int, k string) math.Int {
	if v, ok := m[k]; ok {
		return v
	}
	return math.ZeroInt()
}
