package props

import (
	"bytes"
	"context"
	"cosmossdk.io/math"
	"encoding/gob"
	"encoding/hex"
	"encoding/json"
	"fmt"
	"github.com/palomachain/paloma/v2/app"
	"os"
	"os/exec"
	"strings"
	"time"

	abci "github.com/cometbft/cometbft/abci/types"
	sdk "github.com/cosmos/cosmos-sdk/types"
	consensustypes "github.com/palomachain/paloma/v2/x/consensus/types"
	evmtypes "github.com/palomachain/paloma/v2/x/evm/types"
	palomatypes "github.com/palomachain/paloma/v2/x/paloma/types"
	skywaytypes "github.com/palomachain/paloma/v2/x/skyway/types"
	valsettypes "github.com/palomachain/paloma/v2/x/valset/types"
	"verifsim/core"
	"verifsim/world"
)

func init() { Register("C08", c08) }

const envFF = "PALOMA_FF_PIGEON_STATUS_UPDATE"

// History is what a follower needs to re-execute the leader's chain.
type History struct {
	ChainID   string
	InitReq   []byte // marshalled RequestInitChain
	Blocks    []world.BlockRecord
	Digests   []string
	AppHashes []string
	TxCodes   [][]uint32
}

type followerPlan struct {
	Kind    string // env | restart | queries | plain
	EnvSet  bool
	EnvFlip []bool // per block: toggle the variable before the block
	Restart []int  // per block: 0 none, 1 restart after commit, 2 crash between FinalizeBlock and Commit
	Storm   []bool
}

// follow re-executes the history on a fresh node and returns the first divergence (height, what) or "".
func follow(h *History, plan *followerPlan, storm func(n *world.Node)) (int64, string) {
	saved, had := os.LookupEnv(envFF)
	defer func() {
		if had {
			os.Setenv(envFF, saved)
		} else {
			os.Unsetenv(envFF)
		}
	}()
	setEnv := func(on bool) {
		if on {
			os.Setenv(envFF, "1")
		} else {
			os.Unsetenv(envFF)
		}
	}
	envOn := plan.EnvSet
	setEnv(envOn)
	n := world.NewNode(nil, h.ChainID)
	var req abci.RequestInitChain
	if err := req.Unmarshal(h.InitReq); err != nil {
		core.Harnessf("history: %v", err)
	}
	n.InitChainRaw(&req)
	for i, rec := range h.Blocks {
		if i < len(plan.EnvFlip) && plan.EnvFlip[i] {
			envOn = !envOn
			setEnv(envOn)
		}
		crash := i < len(plan.Restart) && plan.Restart[i] == 2 && i > 0
		res := n.ReplayBlock(rec, crash)
		if res.Err != nil || res.Panic != "" {
			return rec.Height, fmt.Sprintf("follower failed to execute the block: err=%v panic=%s", res.Err, firstLine(res.Panic))
		}
		if res.Digest != h.Digests[i] {
			what := "events / results differ"
			if hex.EncodeToString(res.AppHash) != h.AppHashes[i] {
				what = "app hash differs"
			}
			for j, r := range res.Results {
				if j < len(h.TxCodes[i]) && r.Code != h.TxCodes[i][j] {
					what += fmt.Sprintf("; tx %d returned code %d on the follower and %d on the leader (%s)", j, r.Code, h.TxCodes[i][j], firstLine(r.Log))
					if tx, err := n.App.TxConfig().TxDecoder()(rec.Txs[j]); err == nil && len(tx.GetMsgs()) > 0 {
						what += " msg=" + sdk.MsgTypeURL(tx.GetMsgs()[0])
					}
					break
				}
			}
			return rec.Height, what
		}
		if i < len(plan.Restart) && plan.Restart[i] == 1 {
			n.Restart()
		}
		if i < len(plan.Storm) && plan.Storm[i] && storm != nil {
			storm(n)
		}
	}
	return 0, ""
}

// queryStorm issues read-only traffic between blocks to surface in-memory caches surviving across blocks.
func queryStorm(w *JobWorld) func(n *world.Node) {
	return func(n *world.Node) {
		ctx := n.QueryCtx()
		app := n.App
		for _, v := range w.Vals {
			va := v.Acct.ValAddr()
			for _, c := range w.Order {
				q := queueName(c)
				app.ConsensusKeeper.GetMessagesForRelaying(ctx, q, va)
				app.ConsensusKeeper.GetMessagesForSigning(ctx, q, va)
				app.ConsensusKeeper.GetMessagesForAttesting(ctx, q, va)
				app.ConsensusKeeper.GetMessagesForGasEstimation(ctx, q, va)
				app.EvmKeeper.PickValidatorForMessage(ctx, c, nil)
				app.SkywayKeeper.LastPendingBatchRequestByAddr(ctx, &skywaytypes.QueryLastPendingBatchRequestByAddrRequest{Address: v.Acct.Bech32()})
			}
			app.ValsetKeeper.GetValidatorChainInfos(ctx, va)
			app.MetrixKeeper.GetValidatorMetrics(ctx, va)
		}
		app.ValsetKeeper.GetCurrentSnapshot(ctx)
		app.EvmKeeper.GetAllChainInfos(ctx)
		app.TreasuryKeeper.GetRelayerFees(ctx)
		// junk through CheckTx and Simulate
		app.CheckTx(&abci.RequestCheckTx{Tx: []byte("junk"), Type: abci.CheckTxType_New})
		if len(w.Vals) > 0 {
			a := w.Vals[0].Acct
			n.SyncAccount(a)
			if tx, err := n.BuildTx([]*world.Account{a}, nil, &valsettypes.MsgKeepAlive{Metadata: meta(a), PigeonVersion: "v9.9.9"}); err == nil {
				app.Simulate(tx)
				app.CheckTx(&abci.RequestCheckTx{Tx: tx, Type: abci.CheckTxType_New})
			}
		}
	}
}

func c08(r *core.Run) []*core.Violation {
	t := r.Tape
	cfg := BridgeCfg{Chains: []ChainSpec{{"eth-main", 1}}}
	if t.Draw(3) == 2 {
		cfg.Chains = append(cfg.Chains, ChainSpec{"bnb-main", 56})
	}
	cfg.NVals = 3 + t.Intn(4)
	cfg.NUsers = 2 + t.Intn(2)
	cfg.InitialHeight = 40
	if t.Draw(3) == 1 {
		// the periodic sweep for validators without accounts on every chain (height divisible by 303) falls into the run,
		// and one validator has no external accounts at all on two or three chains
		if len(cfg.Chains) == 1 {
			cfg.Chains = append(cfg.Chains, ChainSpec{"bnb-main", 56})
		}
		if t.Draw(2) == 1 {
			cfg.Chains = append(cfg.Chains, ChainSpec{"matic-main", 137})
		}
		if cfg.NVals < 4 {
			cfg.NVals = 4
		}
		cfg.NoChainVals = map[int]bool{cfg.NVals - 1: true}
		cfg.InitialHeight = int64(303 - 28 - t.Intn(20))
		r.Stats.Probe("profile_missing_accounts_sweep")
	}
	cfg.Record = true
	cfg.RestartPerMille = 10
	cfg.FeeMultiplier = map[int]string{} // ties in relayer scores: everybody charges the same
	cfg.MevVals = map[int]bool{0: true}
	w := NewJobWorld(r, cfg)
	if w.Aborted {
		w.abortNote("C08")
		return nil
	}
	// Byzantine evidence splitters make tallies see several groups
	if cfg.NVals >= 4 {
		w.Pigeons[cfg.NVals-1].Hooks.Evidence = w.byzEvidence(cfg.NVals - 1)
	}
	// light-node licences with vesting periods (month arithmetic on the block time): governance names a fee granter,
	// users buy licences for fresh keys, the licensees activate them
	w.Gov.Propose("feegranter", nil, Legacy(palomaFeegranterProposal(w.Users[0].Bech32())))
	var licensees []*world.Account
	levels := []palomatypes.MsgAddStatusUpdate_Level{palomatypes.MsgAddStatusUpdate_LEVEL_DEBUG, palomatypes.MsgAddStatusUpdate_LEVEL_INFO, palomatypes.MsgAddStatusUpdate_LEVEL_ERROR, 3, 77}
	nBlocks := 50 + t.Intn(70)
	for i := 0; i < nBlocks && !w.Aborted; i++ {
		w.RandomJobTraffic(2)
		// relayers report their status (every level, including ones this binary does not know)
		if t.Chance(1, 4) {
			p := w.Pigeons[t.Intn(len(w.Pigeons))]
			lvl := levels[t.Intn(len(levels))]
			msg := &palomatypes.MsgAddStatusUpdate{Metadata: p.meta(), Status: fmt.Sprintf("status-%d", i), Level: lvl,
				Args: []palomatypes.MsgAddStatusUpdate_KeyValuePair{{Key: "k", Value: "v"}}}
			if p.send("status", msg) {
				r.Stats.Probe(fmt.Sprintf("status_updates_level_%d", lvl))
			}
		}
		if t.Chance(1, 8) {
			u := w.Users[t.Intn(len(w.Users))]
			l := world.NewAccount(r.Seed, fmt.Sprintf("licensee%d", len(licensees)), nil)
			licensees = append(licensees, l)
			w.Submit(u, &palomatypes.MsgAddLightNodeClientLicense{Metadata: meta(u), ClientAddress: l.Bech32(), Amount: sdk.NewCoin(app.BondDenom, math.NewInt(int64(1000+t.Intn(100000)))), VestingMonths: uint32(1 + t.Intn(36))})
		}
		if len(licensees) > 0 && t.Chance(1, 5) {
			l := licensees[t.Intn(len(licensees))]
			if l.Known || w.N.SyncAccount(l) {
				if w.Submit(l, &palomatypes.MsgRegisterLightNodeClient{Metadata: meta(l)}).Accepted() {
					r.Stats.Probe("licence_activations_sent")
				}
			}
		}
		w.Step()
	}
	if w.Aborted {
		w.abortNote("C08")
		return nil
	}
	initReq, err := w.N.InitReq.Marshal()
	if err != nil {
		core.Harnessf("marshal init: %v", err)
	}
	hist := &History{ChainID: w.N.ChainID, InitReq: initReq, Blocks: w.N.Blocks, Digests: w.N.Digests, AppHashes: w.N.AppHashes, TxCodes: w.N.TxCodes}
	r.Stats.ProbeN("leader_blocks", int64(len(hist.Blocks)))
	var nTx int64
	for _, b := range hist.Blocks {
		nTx += int64(len(b.Txs))
	}
	r.Stats.ProbeN("leader_txs", nTx)
	var viols []*core.Violation
	kinds := []string{"env", "restart", "queries", "plain"}
	reps := 1
	if r.Tier == "thorough" {
		reps = 3
	}
	if r.Tape.IsReplay() {
		// a divergence caused by Go's randomised map iteration only shows with some probability per execution:
		// a replay repeats every follower often enough to meet it again
		reps = 6
	}
	storm := queryStorm(w)
	for _, kind := range kinds {
		for rep := 0; rep < reps && len(viols) == 0; rep++ {
			plan := &followerPlan{Kind: kind}
			for range hist.Blocks {
				switch kind {
				case "env":
					plan.EnvFlip = append(plan.EnvFlip, t.Chance(1, 10))
				case "restart":
					plan.Restart = append(plan.Restart, []int{0, 0, 0, 0, 0, 0, 0, 1, 2, 0}[t.Intn(10)])
				case "queries":
					plan.Storm = append(plan.Storm, t.Chance(1, 3))
				}
			}
			if kind == "env" {
				plan.EnvSet = true
			}
			r.Stats.Probe("followers_" + kind)
			if h, what := follow(hist, plan, storm); h != 0 {
				viols = append(viols, vio("C08", "twin-diverged", h, map[string]string{"follower": kind},
					fmt.Sprintf("a node re-executing the same %d blocks (%s follower: %s) diverged from the leader at height %d: %s", len(hist.Blocks), kind,
						map[string]string{"env": envFF + " set / toggled between blocks", "restart": "restarts and crashes between FinalizeBlock and Commit", "queries": "read-only queries, Simulate and CheckTx between blocks", "plain": "fresh process state, new map iteration orders"}[kind], h, what)))
			}
		}
	}
	// F4: another OS process, GOMAXPROCS=1, other TZ, variable set from the start, and (faketime build) another wall clock
	otherProcessOneIn := uint64(4) // the fake-clock follower is slow (about ten times an ordinary one): used sparingly in the quick tier
	if r.Tier == "thorough" {
		otherProcessOneIn = 2
	}
	if len(viols) == 0 && t.Draw(otherProcessOneIn) == 0 {
		if h, what, err := followInSubprocess(hist); err != nil {
			core.Harnessf("subprocess follower: %v", err)
		} else if h != 0 {
			viols = append(viols, vio("C08", "twin-diverged", h, map[string]string{"follower": "other-process"},
				fmt.Sprintf("another OS process (GOMAXPROCS=1, another TZ, %s set, wall clock of the Go runtime's fake time, i.e. 2009) diverged from the leader at height %d: %s", envFF, h, what)))
		}
		r.Stats.Probe("followers_other_process")
		if followerTimeouts > 0 {
			r.Stats.ProbeN("fake_clock_follower_abandoned", int64(followerTimeouts))
			followerTimeouts = 0
		}
	}
	r.Stats.Probe("target")
	r.Sample = []string{fmt.Sprintf("leader: %d vals, %d chains, %d blocks, %d txs; followers env=%d restart=%d queries=%d plain=%d other-process=%d",
		cfg.NVals, len(cfg.Chains), len(hist.Blocks), nTx, r.Stats.Probes["followers_env"], r.Stats.Probes["followers_restart"], r.Stats.Probes["followers_queries"], r.Stats.Probes["followers_plain"], r.Stats.Probes["followers_other_process"])}
	return viols
}

// FollowFile is the entry point of the `simworker follow` subcommand.
func FollowFile(path string) {
	f, err := os.Open(path)
	if err != nil {
		fmt.Println(`{"error":"open"}`)
		return
	}
	defer f.Close()
	var h History
	if err := gob.NewDecoder(f).Decode(&h); err != nil {
		fmt.Printf(`{"error":%q}`+"\n", err.Error())
		return
	}
	_, set := os.LookupEnv(envFF)
	height, what := follow(&h, &followerPlan{Kind: "other-process", EnvSet: set}, nil)
	out, _ := json.Marshal(map[string]any{"height": height, "what": what, "wall_clock_year": time.Now().Year()})
	if dst := os.Getenv("VERIF_FOLLOW_OUT"); dst != "" {
		// a worker built with the runtime's fake clock frames everything written to stdout: hand the result over in a file
		if err := os.WriteFile(dst, out, 0o600); err != nil {
			panic(err)
		}
		return
	}
	fmt.Println(string(out))
}

// followerTimeouts counts fake-clock followers that were abandoned (reported as a probe by the scenario).
var followerTimeouts int

func followInSubprocess(h *History) (int64, string, error) {
	dir := world.ScratchRoot()
	path := dir + "/history.gob"
	f, err := os.Create(path)
	if err != nil {
		return 0, "", err
	}
	if err := gob.NewEncoder(f).Encode(h); err != nil {
		f.Close()
		return 0, "", err
	}
	f.Close()
	defer os.Remove(path)
	exe, err := os.Executable()
	if err != nil {
		return 0, "", err
	}
	// a sibling binary built with -tags faketime runs under another wall clock (the Go runtime's fake clock starts in 2009
	// and only advances while every goroutine sleeps): state that depends on time.Now() differs between leader and follower
	resPath := path + ".result"
	// time zones with and without daylight saving, east and west of UTC (calendar arithmetic in local time differs)
	tz := []string{"Asia/Tokyo", "America/New_York", "Pacific/Kiritimati", "Europe/Berlin"}[len(h.Blocks)%4]
	env := append(os.Environ(), "GOMAXPROCS=1", "TZ="+tz, envFF+"=1")
	run := func(bin string, env []string, limit time.Duration) (bytes.Buffer, error, bool) {
		ctx, cancel := context.WithTimeout(context.Background(), limit)
		defer cancel()
		cmd := exec.CommandContext(ctx, bin, "follow", "-tape", path)
		cmd.Env = env
		var out, errb bytes.Buffer
		cmd.Stdout, cmd.Stderr = &out, &errb
		err := cmd.Run()
		if ctx.Err() == context.DeadlineExceeded {
			return out, fmt.Errorf("follower did not finish within %s", limit), true
		}
		if err != nil {
			return out, fmt.Errorf("%v: %s", err, errb.String()), false
		}
		return out, nil, false
	}
	var out bytes.Buffer
	done := false
	if _, err := os.Stat(exe + "-faketime"); err == nil {
		// the fake clock only advances while every goroutine is blocked; a follower that does not finish in time under
		// it is abandoned (bounded real time) and the ordinary binary is used instead
		o, err, timedOut := run(exe+"-faketime", append(append([]string(nil), env...), "VERIF_FOLLOW_OUT="+resPath), 90*time.Second)
		switch {
		case err == nil:
			out, done = o, true
		case !timedOut:
			return 0, "", err
		default:
			os.Remove(resPath)
			followerTimeouts++
		}
	}
	if !done {
		o, err, _ := run(exe, env, 300*time.Second)
		if err != nil {
			return 0, "", err
		}
		out = o
	}
	if bz, err := os.ReadFile(resPath); err == nil {
		out.Reset()
		out.Write(bz)
		os.Remove(resPath)
	}
	var res struct {
		Height int64  `json:"height"`
		What   string `json:"what"`
		Error  string `json:"error"`
		Year   int    `json:"wall_clock_year"`
	}
	line := strings.TrimSpace(out.String())
	if i := strings.LastIndex(line, "\n"); i >= 0 {
		line = line[i+1:]
	}
	if err := json.Unmarshal([]byte(line), &res); err != nil || res.Error != "" {
		return 0, "", fmt.Errorf("bad follower output %q %v", line, err)
	}
	return res.Height, res.What, nil
}

var _ = consensustypes.ModuleName
var _ = evmtypes.ModuleName
