package props

import (
	govv1beta1 "github.com/cosmos/cosmos-sdk/x/gov/types/v1beta1"
	palomatypes "github.com/palomachain/paloma/v2/x/paloma/types"
	"verifsim/evmsim"
)

func palomaFeegranterProposal(acct string) govv1beta1.Content {
	return &palomatypes.SetLightNodeClientFeegranterProposal{Title: "feegranter", Description: "d", FeegranterAccount: acct}
}

func palomaFundersProposal(accts []string) govv1beta1.Content {
	return &palomatypes.SetLightNodeClientFundersProposal{Title: "funders", Description: "d", FunderAccounts: accts}
}

func evmsimPack(method string, args ...any) ([]byte, error) {
	return evmsim.CompassABI.Pack(method, args...)
}
